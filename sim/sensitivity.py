# =============================================================================
# Sensitivity self-test: hand-written mutants and behaviour-preserving
# refactorings, applied to a scratch copy of /repo (never to /repo itself)
# =============================================================================
#
#   ./check selftest sensitivity [--props C08,...] [--only id,id] [--runs N]
#
# A mutant must (a) still pass the pinned test suite and (b) be flagged by the
# property's check within the quick budget.  A refactoring must leave the
# check silent.  Entries are plain (file, old, new) text replacements.
#
import os
import shutil
import subprocess
import sys
import tempfile

ROOT = os.path.dirname(os.path.dirname(os.path.abspath(__file__)))

TD = "ural/classes/trie_dict.py"
HT = "ural/classes/hostname_trie_set.py"
ST = "ural/classes/suffix_trie.py"
LT = "ural/lru/trie.py"
LS = "ural/lru/serialization.py"
TL = "ural/tld.py"

CATALOGUE = [
    # ---------------------------------------------------------------- C10
    ("m10-counter-on-overwrite", "C10", "mutant", TD,
     "        if node.value is NULL:\n            for n in visited_nodes:\n                n.counter += 1\n\n        node.value = value\n\n    def get(",
     "        for n in visited_nodes:\n            n.counter += 1\n\n        node.value = value\n\n    def get("),
    ("m10-get-none-is-absent", "C10", "mutant", TD,
     "        if node.value is not NULL:\n            return node.value\n\n        return default\n",
     "        if node.value is not NULL and node.value is not None:\n            return node.value\n\n        return default\n"),
    ("m10-getitem-no-keyerror-on-inner-node", "C10", "mutant", TD,
     "        if node.value is not NULL:\n            return node.value\n\n        raise KeyError(prefix)\n",
     "        if node.value is not NULL or node.children is not None:\n            return node.value if node.value is not NULL else None\n\n        raise KeyError(prefix)\n"),
    ("m10-values-skip-root", "C10", "mutant", TD,
     "        stack = [self.__root]\n",
     "        stack = list((self.__root.children or {}).values())\n"),
    ("m10-lmpv-truthy", "C10", "mutant", TD,
     "            if node.value is not NULL:\n                last_value = node.value\n",
     "            if node.value is not NULL and node.value:\n                last_value = node.value\n"),
    ("m10-items-shared-prefix", "C10", "mutant", TD,
     "    def items(self):\n        stack = [(self.__root, [])]\n\n        while len(stack) > 0:\n            node, prefix = stack.pop()\n\n            if node.value is not NULL:\n                yield (prefix, node.value)\n\n            if node.children is None:\n                continue\n\n            for token, child in node.children.items():\n                stack.append((child, prefix + [token]))\n",
     "    def items(self):\n        stack = [(self.__root, 0, None)]\n        prefix = []\n\n        while len(stack) > 0:\n            node, depth, token = stack.pop()\n            del prefix[max(depth - 1, 0):]\n            if token is not None:\n                prefix.append(token)\n\n            if node.value is not NULL:\n                yield (prefix, node.value)\n\n            if node.children is None:\n                continue\n\n            for token, child in node.children.items():\n                stack.append((child, depth + 1, token))\n"),
    ("m10-partial-insert-counts", "C10", "mutant", TD,
     "            if node.children is None:\n                child = TrieDictNode()\n\n                node.children = {token: child}\n\n                visited_nodes.append(node)\n                node = child\n                continue\n\n            child = node.children.get(token)\n\n            if child is not None:\n                visited_nodes.append(node)\n                node = child\n            else:\n                child = TrieDictNode()\n\n                node.children[token] = child\n                visited_nodes.append(node)\n                node = child\n\n        if node.value is NULL:\n            for n in visited_nodes:\n                n.counter += 1\n\n        node.value = value\n",
     "            if node.children is None:\n                child = TrieDictNode()\n\n                node.children = {token: child}\n\n                node.counter += 1\n                visited_nodes.append(node)\n                node = child\n                continue\n\n            child = node.children.get(token)\n\n            if child is not None:\n                visited_nodes.append(node)\n                node = child\n            else:\n                child = TrieDictNode()\n\n                node.children[token] = child\n                node.counter += 1\n                visited_nodes.append(node)\n                node = child\n\n        if node.value is NULL:\n            for n in visited_nodes:\n                n.counter += 1\n\n        node.value = value\n"),
    ("r10-setdefault-refactor", "C10", "refactor", TD,
     "            if node.children is None:\n                child = TrieDictNode()\n\n                node.children = {token: child}\n\n                visited_nodes.append(node)\n                node = child\n                continue\n\n            child = node.children.get(token)\n\n            if child is not None:\n                visited_nodes.append(node)\n                node = child\n            else:\n                child = TrieDictNode()\n\n                node.children[token] = child\n                visited_nodes.append(node)\n                node = child\n\n        if node.value is NULL:\n            for n in visited_nodes:\n                n.counter += 1\n\n        node.value = value\n",
     "            if node.children is None:\n                node.children = {}\n\n            child = node.children.get(token)\n\n            if child is None:\n                child = node.children[token] = TrieDictNode()\n\n            visited_nodes.append(node)\n            node = child\n\n        if node.value is NULL:\n            for n in visited_nodes:\n                n.counter += 1\n\n        node.value = value\n"),
    ("r10-values-sorted-order", "C10", "refactor", TD,
     "            stack.extend(node.children.values())\n",
     "            stack.extend(reversed(list(node.children.values())))\n"),
    # ---------------------------------------------------------------- C09
    ("m09-prune-off-by-one", "C09", "mutant", TD,
     "                n.counter -= node.counter - 1\n",
     "                n.counter -= node.counter\n"),
    ("m09-duplicate-counts-twice", "C09", "mutant", TD,
     "        elif node.value is NULL:\n            for n in visited_nodes:\n                n.counter += 1\n",
     "        else:\n            for n in visited_nodes:\n                n.counter += 1\n"),
    ("m09-longer-not-ignored", "C09", "mutant", TD,
     "            # Check if we try to add a longer prefix\n            if node.value is not NULL:\n                return\n",
     "            # Check if we try to add a longer prefix\n            if node.value is not NULL and node.children is None and False:\n                return\n"),
    ("m09-prune-value-counted", "C09", "mutant", TD,
     "        if node.children is not None:\n            node.children = None\n",
     "        if node.children is not None and node.counter > 1:\n            node.children = None\n"),
    ("m09-no-lower", "C09", "mutant", HT,
     "    hostname = hostname.strip().lower()\n",
     "    hostname = hostname.strip()\n"),
    ("m09-no-punycode", "C09", "mutant", HT,
     "    hostname_parts = decode_punycode_hostname(hostname, as_parts=True)\n",
     "    hostname_parts = hostname.split(\".\")\n"),
    ("m09-join-not-reversed", "C09", "mutant", HT,
     "    return \".\".join(reversed(prefix))\n",
     "    return \".\".join(prefix)\n"),
    ("m09-netloc-instead-of-hostname", "C09", "mutant", HT,
     "        prefix = tokenize_hostname(url.hostname)\n",
     "        prefix = tokenize_hostname(url.netloc)\n"),
    ("m09-no-strip", "C09", "mutant", HT,
     "    hostname = hostname.strip().lower()\n",
     "    hostname = hostname.lower()\n"),
    ("r09-tokenize-list", "C09", "refactor", HT,
     "    return reversed(hostname_parts)\n",
     "    return hostname_parts[::-1]\n"),
    # ---------------------------------------------------------------- C11
    ("m11-match-keeps-empty-path-stems", "C11", "mutant", LT,
     "    def match(self, url):\n        stems = self.tokenize(url)\n        stems = clean_trailing_path(stems)\n",
     "    def match(self, url):\n        stems = self.tokenize(url)\n"),
    ("m11-set_lru-no-unserialize", "C11", "mutant", LT,
     "    def set_lru(self, lru, metadata):\n        stems = ensure_lru_stems(lru)\n",
     "    def set_lru(self, lru, metadata):\n        stems = lru\n"),
    ("m11-normalized-drops-kwargs", "C11", "mutant", LT,
     "        return normalized_lru_stems(url, suffix_aware=self.suffix_aware, **self.kwargs)\n",
     "        return normalized_lru_stems(url, suffix_aware=self.suffix_aware)\n"),
    ("m11-canonicalized-drops-suffix-aware", "C11", "mutant", LT,
     "        return canonicalized_lru_stems(\n            url, suffix_aware=self.suffix_aware, **self.kwargs\n        )\n",
     "        return canonicalized_lru_stems(url, **self.kwargs)\n"),
    ("m11-splitter-misses-auth-stems", "C11", "mutant", LS,
     "SERIALIZED_LRU_SPLITTER_RE = re.compile(r\"\\|(?=[shtpqfuw]:)\")\n",
     "SERIALIZED_LRU_SPLITTER_RE = re.compile(r\"\\|(?=[shtpqf]:)\")\n"),
    ("m11-clean-only-trailing", "C11", "mutant", LT,
     "    return [stem for stem in stems if stem != \"p:\"]\n",
     "    stems = list(stems)\n    while stems and stems[-1] == \"p:\":\n        stems.pop()\n    return stems\n"),
    ("m11-match_lru-no-clean", "C11", "mutant", LT,
     "    def match_lru(self, lru):\n        stems = ensure_lru_stems(lru)\n        stems = clean_trailing_path(stems)\n",
     "    def match_lru(self, lru):\n        stems = ensure_lru_stems(lru)\n"),
    ("r11-clean-generator", "C11", "refactor", LT,
     "    return [stem for stem in stems if stem != \"p:\"]\n",
     "    return list(filter(lambda stem: stem != \"p:\", stems))\n"),
    # ---------------------------------------------------------------- C08
    ("m08-wildcard-only-without-explicit-child", "C08", "mutant", ST,
     "            if wildcard is not None and wildcard.leaf:\n",
     "            if child is None and wildcard is not None and wildcard.leaf:\n"),
    ("m08-exception-ignored", "C08", "mutant", ST,
     "            if node.exceptions is not None and part in node.exceptions:\n                suffix_length = current_length\n                match = node\n                break\n",
     "            if node.exceptions is not None and part in node.exceptions and node.leaf:\n                suffix_length = current_length\n                match = node\n                break\n"),
    ("m08-no-rstrip-dot", "C08", "mutant", ST,
     "        hostname = parsed.hostname.lower().rstrip(\".\")\n",
     "        hostname = parsed.hostname.lower()\n"),
    ("m08-exception-marks-parent-leaf", "C08", "mutant", ST,
     "                node.exceptions.add(part[1:])\n                return\n",
     "                node.exceptions.add(part[1:])\n                break\n"),
    ("m08-refresh-does-not-reset", "C08", "mutant", TL,
     "    global TLD_TRIE\n\n    SUFFIX_TRIE = SuffixTrie()\n\n    for suffix",
     "    global TLD_TRIE\n\n    for suffix"),
    ("m08-upgrade-refresh-before-private", "C08", "mutant", TL,
     "        tld_data.PUBLIC_SUFFIXES = public\n        tld_data.PRIVATE_SUFFIXES = private\n        tld_data.TLDS = tlds\n\n        refresh()\n",
     "        tld_data.PUBLIC_SUFFIXES = public\n        refresh()\n        tld_data.PRIVATE_SUFFIXES = private\n        tld_data.TLDS = tlds\n"),
    ("m08-split-suffix-memoised", "C08", "mutant", TL,
     "def split_suffix(url):\n    return SUFFIX_TRIE.split(url)\n",
     "_SPLIT_CACHE = {}\n\n\ndef split_suffix(url):\n    if not isinstance(url, str):\n        return SUFFIX_TRIE.split(url)\n    if url not in _SPLIT_CACHE:\n        _SPLIT_CACHE[url] = SUFFIX_TRIE.split(url)\n    return _SPLIT_CACHE[url]\n"),
    ("m08-transient-skips-refresh", "C08", "mutant", TL,
     "        refresh()\n\n        if transient:\n            return\n",
     "        if transient:\n            return\n\n        refresh()\n"),
    ("m08-has-valid-tld-first-label", "C08", "mutant", TL,
     "    last_part = parsed.hostname.rsplit(\".\", 1)[-1]\n",
     "    last_part = parsed.hostname.split(\".\", 1)[-1]\n"),
    ("m08-is-valid-tld-no-lower", "C08", "mutant", TL,
     "    tld = attempt_to_decode_idna(tld.lstrip(\".\").lower())\n",
     "    tld = attempt_to_decode_idna(tld.lstrip(\".\"))\n"),
    ("m08-domain-name-two-labels", "C08", "mutant", ST,
     "        return \".\".join(parts[offset - 1 :])\n",
     "        return \".\".join(parts[max(offset - 1, len(parts) - 2) :])\n"),
    ("r08-refresh-local-then-swap", "C08", "refactor", TL,
     "    SUFFIX_TRIE = SuffixTrie()\n\n    for suffix in tld_data.PUBLIC_SUFFIXES:\n        SUFFIX_TRIE.add(suffix, private=False)\n\n    for suffix in tld_data.PRIVATE_SUFFIXES:\n        SUFFIX_TRIE.add(suffix, private=True)\n",
     "    trie = SuffixTrie()\n\n    for suffix in tld_data.PUBLIC_SUFFIXES:\n        trie.add(suffix, private=False)\n\n    for suffix in tld_data.PRIVATE_SUFFIXES:\n        trie.add(suffix, private=True)\n\n    SUFFIX_TRIE = trie\n"),
    ("r08-upgrade-temp-file-then-replace", "C08", "refactor", TL,
     "        with codecs.open(output_path, \"w\", encoding=\"utf-8\") as f:\n",
     "        import io, os\n\n        with io.open(output_path + \".tmp\", \"w\", encoding=\"utf-8\") as f:\n            f.write(\"\")\n        os.replace(output_path + \".tmp\", output_path)\n        with io.open(output_path, \"w\", encoding=\"utf-8\") as f:\n"),
    ("r08-exceptions-frozen", "C08", "refactor", ST,
     "                node.exceptions.add(part[1:])\n                return\n",
     "                node.exceptions = set(node.exceptions) | {part[1:]}\n                return\n"),
]


def run(cmd, env=None, cwd=None, timeout=1800):
    p = subprocess.run(cmd, env=env, cwd=cwd, stdout=subprocess.PIPE, stderr=subprocess.STDOUT, text=True, timeout=timeout)
    return p.returncode, p.stdout


def seeded(args):
    """Re-run every kept seeded change (/verif/seeded/<id>/patch.diff) on a scratch
    copy: the pinned suite must pass, the demo must fail, and the property's check
    must report a violation (or stay green for an entry recorded as out of scope)."""
    import json

    props = set(args.props.split(","))
    only = set(args.only.split(",")) if args.only else None
    repo = os.path.abspath(args.repo)
    base = "/dev/shm" if os.path.isdir("/dev/shm") else None
    sdir = os.path.join(ROOT, "seeded")
    problems = 0
    rows = []
    for sid in sorted(os.listdir(sdir)):
        meta_path = os.path.join(sdir, sid, "meta.json")
        if not os.path.exists(meta_path):
            continue
        with open(meta_path) as f:
            meta = json.load(f)
        prop = meta["property"]
        if prop not in props or (only and sid not in only):
            continue
        scratch = tempfile.mkdtemp(prefix="ural-seed-", dir=base)
        try:
            for name in ("ural", "test"):
                shutil.copytree(os.path.join(repo, name), os.path.join(scratch, name), ignore=shutil.ignore_patterns("__pycache__", "*.pyc"))
            rc_a, out_a = run(["git", "apply", os.path.join(sdir, sid, "patch.diff")], cwd=scratch)
            if rc_a != 0:
                rows.append((sid, "PATCH-DOES-NOT-APPLY"))
                print(rows[-1], out_a[-300:])
                problems += 1
                continue
            env = dict(os.environ, PYTHONPATH=scratch, PYTHONDONTWRITEBYTECODE="1")
            rc_t, _ = run(["/venv/bin/python", "-m", "pytest", "-q", "-p", "no:cacheprovider", "-x"], env=env, cwd=scratch)
            is_refactoring = meta.get("detected") == "refactoring"
            rc_d = 1
            if not is_refactoring:
                rc_d, _ = run(["/venv/bin/python", "-B", os.path.join(sdir, sid, "demo.py")], env=env, cwd=scratch, timeout=600)
            cmd = [sys.executable, "-B", os.path.join(ROOT, "run_check.py"), prop, "--repo", scratch, "--evidence-dir", "none", "--minimise-s", "10"]
            if args.runs:
                cmd += ["--runs", str(args.runs)]
            if os.environ.get("VERIF_SELFTEST_FAST") and meta.get("detected") == "yes":
                # a shortened pass over the caught-expected entries: fewer runs, no minimisation
                cmd = [c for c in cmd if c not in ("--minimise-s", "10")] + ["--no-minimise", "--runs", {"C08": "3000", "C09": "1500", "C10": "8000", "C11": "6000"}[prop]]
            # an entry may say what it takes to be caught (e.g. the whole quick tier
            # even on a loaded machine, where the wall-clock budget would cut it short)
            cmd += [str(x) for x in meta.get("check_args", [])]
            rc, out = run(cmd)
            first = [l for l in out.splitlines() if l.startswith("violation:")][:1]
            note = [l for l in out.splitlines() if l.startswith("NOTE")][:1]
            expect_violation = meta.get("detected") == "yes"
            ok = (rc == 1) if expect_violation else (rc == 0)
            if "expected_exit" in meta:
                ok = rc == meta["expected_exit"]
            verdict = ("caught" if rc == 1 else "green") if rc in (0, 1) else "exit-2"
            rows.append((sid, "tests %s" % ("pass" if rc_t == 0 else "FAIL"), ("refactoring" if is_refactoring else "demo %s" % ("fails" if rc_d != 0 else "PASSES")), verdict, "as recorded" if ok else "UNEXPECTED", (first or note or [""])[0][:150]))
            print(rows[-1])
            sys.stdout.flush()
            if not ok or rc_t != 0 or rc_d == 0:
                problems += 1
        finally:
            shutil.rmtree(scratch, ignore_errors=True)
    print("seeded: %d entries, %d problems" % (len(rows), problems))
    return 1 if problems else 0


def main(args):
    props = set(args.props.split(","))
    only = set(args.only.split(",")) if args.only else None
    repo = os.path.abspath(args.repo)
    base = "/dev/shm" if os.path.isdir("/dev/shm") else None
    results = []
    for mid, prop, kind, path, old, new in CATALOGUE:
        if prop not in props or (only and mid not in only):
            continue
        scratch = tempfile.mkdtemp(prefix="ural-sens-", dir=base)
        try:
            for name in ("ural", "test"):
                shutil.copytree(os.path.join(repo, name), os.path.join(scratch, name), ignore=shutil.ignore_patterns("__pycache__", "*.pyc"))
            target = os.path.join(scratch, path)
            with open(target) as f:
                src = f.read()
            if src.count(old) != 1:
                results.append((mid, prop, kind, "STALE (pattern occurs %d times)" % src.count(old)))
                print(results[-1])
                continue
            with open(target, "w") as f:
                f.write(src.replace(old, new))
            env = dict(os.environ, PYTHONPATH=scratch, PYTHONDONTWRITEBYTECODE="1")
            rc_t, out_t = run(["/venv/bin/python", "-m", "pytest", "-q", "-p", "no:cacheprovider", "-x"], env=env, cwd=scratch)
            tests = "tests pass" if rc_t == 0 else "tests FAIL"
            rc, out = run([sys.executable, "-B", os.path.join(ROOT, "run_check.py"), prop, "--runs", str(args.runs), "--repo", scratch, "--evidence-dir", "none", "--minimise-s", "10"])
            first = [l for l in out.splitlines() if l.startswith("violation:")][:1]
            if kind == "mutant":
                verdict = "caught" if rc == 1 else ("MISSED" if rc == 0 else "HARNESS-ERROR")
            else:
                verdict = "silent" if rc == 0 else ("FALSE-ALARM" if rc == 1 else "HARNESS-ERROR")
            results.append((mid, prop, kind, tests, verdict, first[0][:160] if first else ""))
            print(results[-1])
            if verdict == "HARNESS-ERROR":
                print(out[-3000:])
            sys.stdout.flush()
        finally:
            shutil.rmtree(scratch, ignore_errors=True)
    bad = [x for x in results if x[-2] in ("MISSED", "FALSE-ALARM", "HARNESS-ERROR") or "STALE" in x[3]]
    print("sensitivity: %d entries, %d problems" % (len(results), len(bad)))
    return 1 if bad else 0
