# =============================================================================
# Deterministic-simulation core shared by every claimed property
# =============================================================================
#
# One integer (VERIF_SEED) decides everything: run r of property P derives its
# PRNG streams from sha256("P|seed|r|stream").  A *case* is an explicit,
# JSON-serialisable {"config": ..., "events": [...]} — the schedule and the
# faults are spelled out in the event list, so executing a case involves no
# PRNG at all and a replay file is exactly such a case.
#
# No hash(), no set iteration, no wall clock and no id() may influence a
# decision or an event-log line.
#
import hashlib
import json
import random
import time

HARNESS_ERROR_EXIT = 2


class HarnessError(Exception):
    """Something is wrong with the simulator itself, never with the property."""


# -----------------------------------------------------------------------------
# PRNG streams and stable hashes
# -----------------------------------------------------------------------------
def stream(prop, seed, run, name):
    material = ("%s|%d|%d|%s" % (prop, seed, run, name)).encode("utf-8")
    return random.Random(int.from_bytes(hashlib.sha256(material).digest()[:8], "big"))


def h64(text):
    if not isinstance(text, bytes):
        text = text.encode("utf-8", "surrogatepass")
    return int.from_bytes(hashlib.blake2b(text, digest_size=8).digest(), "big")


def canon(obj):
    return json.dumps(obj, sort_keys=True, ensure_ascii=True, separators=(",", ":"))


def weighted_choice(rng, pairs):
    # pairs: ordered list of (item, weight); order is part of the determinism
    total = 0
    for _, w in pairs:
        total += w
    x = rng.random() * total
    acc = 0
    for item, w in pairs:
        acc += w
        if x < acc:
            return item
    return pairs[-1][0]


def geometric(rng, mean, cap, lo=1):
    p = 1.0 / max(mean, 1.0)
    n = lo
    while n < cap and rng.random() > p:
        n += 1
    return n


# -----------------------------------------------------------------------------
# Value encoding (events must be JSON; stored values must keep identity/type)
# -----------------------------------------------------------------------------
class Absent(object):
    """Sentinel default distinguishing 'no entry' from a stored None."""

    def __repr__(self):
        return "<ABSENT>"


ABSENT = Absent()


class AlwaysEqual(object):
    """A value whose == claims equality with anything (like unittest.mock.ANY):
    a container must not confuse it with its own 'no value' marker."""

    def __eq__(self, other):
        return True

    def __ne__(self, other):
        return False

    def __hash__(self):
        return 1

    def __repr__(self):
        return "<ALWAYS-EQUAL>"


SPECIAL_VALUES = {"any": AlwaysEqual()}


class StrSub(str):
    """A token that is an instance of a str subclass (equal to and hashing like
    the plain string)."""


def dec_token(t):
    # "\x00sub:text" -> StrSub("text"); every other token is itself
    if isinstance(t, str) and t.startswith("\x00sub:"):
        return StrSub(t[5:])
    return t


def dec_value(enc):
    # {"u": n} -> a fresh unique tuple; {"c": x} -> the JSON constant itself;
    # {"k": name} -> a special singleton
    if "u" in enc:
        return ("v", enc["u"])
    if "k" in enc:
        return SPECIAL_VALUES[enc["k"]]
    return enc["c"]


def same(got, expected):
    if isinstance(expected, AlwaysEqual) or isinstance(got, AlwaysEqual):
        return got is expected
    if expected is None or expected is True or expected is False or expected is ABSENT:
        return got is expected
    return type(got) is type(expected) and got == expected


# -----------------------------------------------------------------------------
# Per-run statistics
# -----------------------------------------------------------------------------
class Stats(object):
    __slots__ = (
        "faults",
        "probes",
        "states",
        "nontrivial",
        "transitions",
        "steps",
        "checks",
        "known",
        "log",
        "seq",
        "collect",
    )

    def __init__(self, collect=True):
        self.faults = {}
        self.probes = {}
        self.states = set()
        self.nontrivial = set()
        self.transitions = set()
        self.steps = 0
        self.checks = 0
        self.known = {}
        self.log = hashlib.sha256()
        self.seq = 0
        self.collect = collect

    def fault(self, kind, n=1):
        self.faults[kind] = self.faults.get(kind, 0) + n

    def probe(self, name, n=1):
        self.probes[name] = self.probes.get(name, 0) + n

    def state(self, text, nontrivial=True):
        if self.collect:
            h = h64(text)
            self.states.add(h)
            if nontrivial:
                self.nontrivial.add(h)

    def transition(self, text):
        if self.collect:
            self.transitions.add(h64(text))

    def event(self, line):
        # One event-log line; seq is the simulator's global event number
        self.seq += 1
        self.steps += 1
        self.log.update(("%d|%s\n" % (self.seq, line)).encode("utf-8", "surrogatepass"))

    def known_finding(self, fid):
        self.known[fid] = self.known.get(fid, 0) + 1

    def digest(self):
        return self.log.hexdigest()


def merge_counts(into, other):
    for k, v in other.items():
        into[k] = into.get(k, 0) + v


# -----------------------------------------------------------------------------
# Violations
# -----------------------------------------------------------------------------
class Violation(Exception):
    def __init__(self, invariant, op, got, expected, detail=None):
        Exception.__init__(self, invariant)
        self.invariant = invariant
        self.op = op
        self.got = got
        self.expected = expected
        self.detail = detail
        self.seq = None

    def klass(self):
        return (self.invariant, self.op)

    def record(self, prop):
        return {
            "property": prop,
            "invariant": self.invariant,
            "op": self.op,
            "seq": self.seq,
            "got": self.got,
            "expected": self.expected,
            "detail": self.detail,
        }


def sut_len(obj):
    """len() of an object of the system under test: the interpreter itself raises
    when __len__ returns a negative number or a non-integer — that is the
    object misbehaving, not the harness."""
    try:
        return len(obj)
    except (TypeError, ValueError, OverflowError) as exc:
        raise Violation("len", "len", "%s: %s" % (type(exc).__name__, exc), "a non-negative integer")


def bounded(iterable, expected, what="iteration"):
    """list(iterable), but a traversal that yields far more than the container can
    hold (a cycle, a generator that never ends) is a violation, not a hang."""
    cap = 4 * expected + 64
    out = []
    try:
        iterable = iter(iterable)
    except TypeError as exc:  # raised by the interpreter: __iter__ returned a non-iterator
        raise Violation("iteration", what, "TypeError: %s" % exc, "an iterator")
    for item in iterable:
        out.append(item)
        if len(out) > cap:
            raise Violation("iteration_unbounded", what, "more than %d items" % cap, "%d items" % expected)
    return out


_ADDRESS = __import__("re").compile(r" at 0x[0-9a-fA-F]+")


def r(obj):
    """Deterministic short repr for violation records and log lines."""
    s = repr(obj)
    if " at 0x" in s:
        # default reprs carry a memory address: not a function of the seed
        s = _ADDRESS.sub(" at 0x?", s)
    if len(s) > 400:
        s = s[:400] + "...(%d chars)" % len(s)
    return s


# -----------------------------------------------------------------------------
# Known findings (committed file; never written at run time)
# -----------------------------------------------------------------------------
class KnownFindings(object):
    def __init__(self, path, prop, matchers):
        self.open = []
        self.fixed = []
        self.matchers = matchers
        try:
            with open(path) as f:
                data = json.load(f)
        except FileNotFoundError:
            data = {"findings": []}
        for entry in data.get("findings", []):
            if isinstance(entry, str):
                if ("property=%s " % prop) in entry:
                    self.fixed.append(entry)
                continue
            if entry.get("property") != prop:
                continue
            if entry.get("status") == "open":
                self.open.append(entry)

        for e in self.open:
            if e.get("matcher") not in matchers:
                raise HarnessError("known finding %r names an unknown matcher" % (e.get("id"),))

    def match(self, prop, discrepancy):
        for e in self.open:
            if self.matchers[e["matcher"]](discrepancy):
                return e["id"]
        return None

    def what(self, fid):
        for e in self.open:
            if e["id"] == fid:
                return e["what"]
        return ""


# -----------------------------------------------------------------------------
# Delta debugging over the explicit event list
# -----------------------------------------------------------------------------
class Minimiser(object):
    def __init__(self, sim, case, violation, max_execs=3000, max_seconds=60.0):
        self.sim = sim
        self.case = case
        self.klass = violation.klass()
        self.execs = 0
        self.max_execs = max_execs
        # NOTE: the wall budget only decides when minimisation *stops*; every
        # candidate is judged by re-executing it, so the result always replays.
        self.deadline = time.monotonic() + max_seconds

    def exhausted(self):
        return self.execs >= self.max_execs or time.monotonic() > self.deadline

    def fails(self, case):
        """Judge one candidate in a forked child of this (clean) process, so that
        state the system under test keeps between executions — a class-level memo,
        a shared options dict — cannot make one candidate's verdict depend on the
        candidates tried before it."""
        import os
        import pickle

        self.execs += 1
        rfd, wfd = os.pipe()
        pid = os.fork()
        if pid == 0:
            code = 0
            try:
                os.close(rfd)
                try:
                    v = run_one(self.sim, case, Stats(collect=False))
                    verdict = v is not None and v.klass() == self.klass
                except HarnessError:
                    verdict = False
                with os.fdopen(wfd, "wb") as w:
                    pickle.dump(bool(verdict), w)
            except BaseException:
                code = 1
            finally:
                os._exit(code)
        os.close(wfd)
        with os.fdopen(rfd, "rb") as rd:
            data = rd.read()
        os.waitpid(pid, 0)
        return bool(data) and pickle.loads(data)

    def klass_of(self, case):
        """Violation class of a case, computed in a forked child (None = no violation)."""
        import os
        import pickle

        rfd, wfd = os.pipe()
        pid = os.fork()
        if pid == 0:
            code = 0
            try:
                os.close(rfd)
                try:
                    v = run_one(self.sim, case, Stats(collect=False))
                    out = None if v is None else v.klass()
                except HarnessError:
                    out = None
                with os.fdopen(wfd, "wb") as w:
                    pickle.dump(out, w)
            except BaseException:
                code = 1
            finally:
                os._exit(code)
        os.close(wfd)
        with os.fdopen(rfd, "rb") as rd:
            data = rd.read()
        os.waitpid(pid, 0)
        return pickle.loads(data) if data else None

    def with_events(self, events):
        return {"config": self.case["config"], "events": events}

    def ddmin(self):
        events = list(self.case["events"])
        n = 2
        while len(events) >= 2 and not self.exhausted():
            size = max(1, len(events) // n)
            reduced = False
            start = 0
            while start < len(events) and not self.exhausted():
                candidate = events[:start] + events[start + size :]
                if candidate and self.fails(self.with_events(candidate)):
                    events = candidate
                    n = max(n - 1, 2)
                    reduced = True
                else:
                    start += size
            if not reduced:
                if size == 1:
                    break
                n = min(n * 2, len(events))
        self.case = self.with_events(events)

    def one_by_one(self):
        # final pass: drop single events, last first
        events = list(self.case["events"])
        i = len(events) - 1
        while i >= 0 and not self.exhausted():
            candidate = events[:i] + events[i + 1 :]
            if candidate and self.fails(self.with_events(candidate)):
                events = candidate
            i -= 1
        self.case = self.with_events(events)

    def shrink_arguments(self):
        changed = True
        while changed and not self.exhausted():
            changed = False
            events = self.case["events"]
            for i in range(len(events)):
                for simpler in self.sim.shrink_event(self.case["config"], events[i]):
                    if self.exhausted():
                        break
                    candidate = events[:i] + [simpler] + events[i + 1 :]
                    if self.fails(self.with_events(candidate)):
                        self.case = self.with_events(candidate)
                        events = candidate
                        changed = True
                        break
            for simpler_case in self.sim.shrink_config(self.case):
                if self.exhausted():
                    break
                if self.fails(simpler_case):
                    self.case = simpler_case
                    changed = True
                    break

    def run(self):
        self.ddmin()
        self.one_by_one()
        self.shrink_arguments()
        self.one_by_one()
        return self.case


REPO_URAL = None  # realpath of the ural package under test, set by the driver


def classify_exception(exc):
    """An exception escaping from ural code is the system misbehaving (a
    violation); one raised by the harness itself is a harness error."""
    import os
    import traceback

    tb = traceback.extract_tb(exc.__traceback__)
    frames = [f for f in tb if REPO_URAL and os.path.abspath(f.filename).startswith(REPO_URAL)]
    if not frames:
        return None
    last = frames[-1]
    where = "%s:%s" % (os.path.relpath(last.filename, REPO_URAL), last.name)
    return Violation("unexpected_exception", type(exc).__name__, r(str(exc)), "no exception", {"where": where})


def run_one(sim, case, stats):
    """execute_case + classification of exceptions escaping from the system."""
    try:
        return execute_case(sim, case, stats)
    except HarnessError:
        raise
    except RecursionError:
        raise
    except Exception as exc:  # noqa
        v = classify_exception(exc)
        if v is None:
            raise
        v.seq = stats.seq
        return v


def execute_case(sim, case, stats):
    """Run one explicit case against a fresh system; returns Violation or None."""
    try:
        sim.execute(case, stats)
    except Violation as v:
        v.seq = stats.seq
        return v
    return None
