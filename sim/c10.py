# =============================================================================
# C10 — TrieDict behaves as a mapping from token sequences to values
# =============================================================================
#
# System under test: one shared ural.classes.TrieDict (real code, no stub).
# Reference model: a dict from token tuple to value.
# Tasks: 1-4 writer clients (scripts of assignments), reader clients, iterator
# tasks stepping items()/prefixes()/values()/__iter__ on the live object.
# Faults: the key iterable raises after k tokens, an unhashable token at
# position k, cancellation of a live iterator (close/throw) at any step.
#
from sim.core import (
    sut_len,
    bounded,
    dec_token,
    ABSENT,
    HarnessError,
    Violation,
    canon,
    dec_value,
    geometric,
    r,
    same,
    stream,
    weighted_choice,
)

NAME = "C10"

TOKEN_POOLS = [
    ["a", "b"],
    ["a", "b", "c"],
    ["a", "b", "c", "d"],
    ["x", "", "yy"],  # multi-char and empty-string tokens (no str form)
    ["a", "A", "aa"],
    [0, 1, "1", None],  # non-string tokens; 1 and "1" differ, None is a token like any other
    ["\x00sub:a", "b", "\x00sub:bb"],  # tokens that are instances of a str subclass
]
CONST_VALUES = [None, 0, False, "", 1, True]
ODD_VALUES = [{"k": "any"}]  # a value whose == claims equality with anything
ITER_KINDS = ["items", "prefixes", "values", "iter"]
FAULT_KINDS = ["key_iter_raises", "unhashable_token", "iter_cancel"]

COMPONENTS = {
    "real": ["ural.classes.trie_dict.TrieDict (every public method except set_and_prune_if_shorter)"],
    "stub": [],
}


class SimFault(Exception):
    pass


class SimCancel(Exception):
    pass


def all_keys(alphabet, max_len):
    keys = [()]
    layer = [()]
    for _ in range(max_len):
        layer = [k + (t,) for k in layer for t in alphabet]
        keys.extend(layer)
    return keys


def query_universe(alphabet, depth):
    """Every key of length 0..depth+1; for wide alphabets the last two layers are
    thinned out deterministically (extensions by the first two tokens only)."""
    if len(alphabet) <= 4:
        return all_keys(alphabet, depth + 1)
    keys = all_keys(alphabet, min(depth, 2))
    layer = [k for k in keys if len(k) == min(depth, 2)]
    for _ in range(depth + 1 - min(depth, 2)):
        layer = [k + (t,) for k in layer for t in alphabet[:2]]
        keys.extend(layer)
    return keys


# -----------------------------------------------------------------------------
# Generation: config + explicit event list from the seed
# -----------------------------------------------------------------------------
def generate(seed, run, tier):
    crng = stream(NAME, seed, run, "config")
    wrng = stream(NAME, seed, run, "workload")
    srng = stream(NAME, seed, run, "schedule")
    frng = stream(NAME, seed, run, "faults")

    # swarm configuration
    shape = weighted_choice(crng, [("small", 40), ("mixed", 44), ("wide", 8), ("deep", 8)])
    small = shape == "small"
    if small:
        alphabet = TOKEN_POOLS[0]
        depth = crng.choice([1, 2, 2, 3])
    elif shape == "wide":
        # many children per node (a node layout that changes with its fan-out)
        alphabet = list("abcdefghijkl")[: crng.choice([8, 10, 12])]
        depth = crng.choice([1, 2])
    elif shape == "deep":
        # long keys on two tokens (recursion, per-level bookkeeping)
        alphabet = TOKEN_POOLS[0]
        depth = crng.choice([5, 6])
    else:
        alphabet = crng.choice(TOKEN_POOLS)
        depth = crng.choice([2, 3, 3])
    value_mode = crng.choice(["unique", "const", "mixed", "none_heavy"])
    n_writers = crng.choice([1, 1, 2, 3, 4])
    n_readers = crng.choice([0, 1, 2])
    n_iters = crng.choice([0, 1, 2, 3])
    cap = 64 if tier == "quick" else 256
    length = geometric(crng, 12 if small else 20, cap, lo=1)
    fault_class = crng.random() < 0.5
    enabled = []
    if fault_class:
        enabled = [k for k in FAULT_KINDS if crng.random() < 0.6]
    fault_rate = crng.choice([0.02, 0.05, 0.1, 0.15]) if enabled else 0.0
    str_ok = all(isinstance(t, str) and len(t) == 1 for t in alphabet)
    bytes_ok = any(isinstance(t, int) and not isinstance(t, bool) and 0 <= t < 256 for t in alphabet)
    # "reuse": one list object owned by the caller, refilled and passed again and
    # again (path.append(tok); trie[path] = v in a loop)
    forms = ["list", "tuple", "gen", "reuse"] + (["str"] if str_ok else []) + (["bytes"] if bytes_ok else [])
    forms = [f for f in forms if crng.random() < 0.7] or ["list"]
    # observation schedule (swarm): a full sweep after every mutation would
    # always be the first traversal after a write and could mask state kept
    # between traversals; some runs observe less, and not by iterating
    sweep = weighted_choice(crng, [({"iter": True, "stride": 1}, 55), ({"iter": False, "stride": 1}, 20), ({"iter": False, "stride": 3}, 15), ({"iter": True, "stride": 2}, 10)])
    # a second, independent TrieDict in the same process: instances must not
    # share state (class attributes, module-level caches)
    n_tries = crng.choice([1, 1, 1, 2])
    config = {
        "alphabet": alphabet,
        "depth": depth,
        "fault_class": bool(enabled),
        "sweep": sweep,
        "tries": n_tries,
    }

    unique_counter = [0]

    def draw_key(maxlen=depth):
        # bias towards short keys and towards keys related by prefix
        n = wrng.choice([0, 1, 1, 2, 2, 3, 3][: 2 + 2 * maxlen]) if maxlen else 0
        if maxlen > 3 and wrng.random() < 0.5:
            n = wrng.randint(3, maxlen)
        n = min(n, maxlen)
        return [wrng.choice(alphabet) for _ in range(n)]

    def draw_value():
        mode = value_mode
        if mode == "mixed":
            mode = wrng.choice(["unique", "const"])
        if mode == "unique":
            unique_counter[0] += 1
            return {"u": unique_counter[0]}
        if mode == "none_heavy":
            return {"c": wrng.choice([None, None, 1])}
        if wrng.random() < 0.08:
            return wrng.choice(ODD_VALUES)
        return {"c": wrng.choice(CONST_VALUES)}

    scripts = []
    remaining = length
    for w in range(n_writers):
        share = remaining if w == n_writers - 1 else wrng.randint(0, remaining)
        remaining -= share
        scripts.append(
            [
                {"op": "set", "key": draw_key(), "form": wrng.choice(forms), "val": draw_value()}
                for _ in range(share)
            ]
        )

    task_trie = {}
    for kind_, count in (("W", n_writers), ("R", n_readers), ("I", n_iters)):
        for i in range(count):
            task_trie[(kind_, i)] = crng.randrange(n_tries)
    events = []
    live = {}  # iterator task -> True when an iterator is open
    tasks = (
        [("W", i) for i in range(n_writers)]
        + [("R", i) for i in range(n_readers)]
        + [("I", i) for i in range(n_iters)]
    )
    budget = length * 4 + 8
    while any(scripts) and len(events) < budget:
        kind, idx = srng.choice(tasks)
        if kind == "W":
            if not scripts[idx]:
                continue
            ev = scripts[idx].pop(0)
            ev["c"] = "W%d" % idx
            ev["t"] = task_trie[("W", idx)]
            # arbitrary-point cancellation of live traversals lands right
            # before a mutation
            if "iter_cancel" in enabled:
                for it in sorted(live):
                    if frng.random() < 0.5:
                        events.append(
                            {"op": "iter_cancel", "it": it, "how": frng.choice(["close", "throw"]), "c": "F"}
                        )
                        del live[it]
            if enabled and frng.random() < fault_rate:
                choices = [k for k in ("key_iter_raises", "unhashable_token") if k in enabled]
                if choices:
                    ev = dict(ev)
                    ev["op"] = "set_fault"
                    ev["kind"] = frng.choice(choices)
                    ev["k"] = frng.randint(0, len(ev["key"]))
                    # the caller retries the failing call at once, 0-2 times
                    ev["retry"] = frng.choice([0, 0, 1, 2])
                    ev.pop("form", None)
            events.append(ev)
        elif kind == "R":
            op = weighted_choice(
                wrng, [("get", 3), ("get_default", 2), ("getitem", 3), ("lmpv", 4), ("len", 1)]
            )
            ev = {"op": op, "c": "R%d" % idx, "t": task_trie[("R", idx)]}
            if op != "len":
                ev["key"] = draw_key(depth + 1)
                ev["form"] = wrng.choice(forms)
            if op == "get_default":
                ev["default"] = wrng.choice([{"c": None}, {"c": 0}, {"c": "dflt"}])
            events.append(ev)
        else:
            it = "I%d" % idx
            if it not in live:
                events.append({"op": "iter_open", "it": it, "kind": wrng.choice(ITER_KINDS), "c": it, "t": task_trie[("I", idx)]})
                live[it] = True
            elif wrng.random() < 0.25:
                events.append({"op": "iter_drain", "it": it, "c": it})
                del live[it]
            elif "iter_cancel" in enabled and frng.random() < 0.2:
                # abandoned traversal with no mutation around it
                events.append({"op": "iter_cancel", "it": it, "how": frng.choice(["close", "throw", "drop"]), "c": "F"})
                del live[it]
            else:
                events.append({"op": "iter_next", "it": it, "n": wrng.randint(1, 3), "c": it})
    for it in sorted(live):
        events.append({"op": "iter_drain", "it": it, "c": it})
    if crng.random() < 0.06 and events:
        # elsewhere in the process another TrieDict is used through its other
        # mutator (nested valued keys, then a prune): instances share nothing
        pos = srng.randrange(len(events) + 1)
        events.insert(pos, {"op": "foreign_prune", "c": "X"})
    if crng.random() < 0.02 and events:
        # thousands of distinct lookups (more than a bounded cache would hold),
        # then one more assignment and a complete sweep
        pos = srng.randrange(len(events) + 1)
        events.insert(pos, {"op": "flood", "n": crng.choice([4200, 8300]), "c": "R9", "t": 0})
    return {"config": config, "events": events}


# -----------------------------------------------------------------------------
# Execution of an explicit case
# -----------------------------------------------------------------------------
def make_key(tokens, form):
    if form == "tuple":
        return tuple(tokens)
    if form == "str" and all(isinstance(t, str) and len(t) == 1 for t in tokens):
        return "".join(tokens)
    if form == "bytes" and all(isinstance(t, int) and not isinstance(t, bool) and 0 <= t < 256 for t in tokens):
        return bytes(tokens)  # a bytes key is the sequence of its integer tokens
    if form == "gen":
        return (t for t in tokens)
    return list(tokens)


def faulty_key(tokens, k, kind):
    """Key iterable failing at position k. For 'unhashable_token' it first hands
    over an unhashable token; an implementation that hashes its tokens rejects
    it there, one that does not (children kept in a list) reads on and then gets
    the caller's failure — either way the assignment fails."""

    def gen():
        for i, t in enumerate(tokens):
            if i == k:
                break
            yield t
        if kind == "unhashable_token":
            yield ["unhashable"]
        raise SimFault("key iterable failed after %d tokens" % k)

    return gen()


def model_lmpv(model, q):
    for n in range(len(q), -1, -1):
        v = model.get(q[:n], ABSENT)
        if v is not ABSENT:
            return v
    return None


def state_text(model):
    return repr(sorted((repr(k), repr(v)) for k, v in model.items()))


class Run(object):
    def __init__(self, config, stats, known):
        from ural.classes import TrieDict

        self.cfg = config
        self.stats = stats
        self.known = known
        k = config.get("tries", 1)
        self.tries = [TrieDict() for _ in range(k)]
        self.models = [{} for _ in range(k)]
        self.t = 0
        self.iters = {}
        # one-shot (generator) keys are beyond "str / list / tuple keys": an
        # implementation that wants real sequences may reject them with TypeError;
        # from then on the run passes lists instead
        self.buf = []  # the caller's reusable key buffer
        self.gen_ok = True
        self.bytes_ok = True  # likewise for bytes keys (sequences of small integers)
        self.universe = query_universe([dec_token(t) for t in config["alphabet"]], config["depth"])
        self.sweeps = 0

    @property
    def trie(self):
        return self.tries[self.t]

    @property
    def model(self):
        return self.models[self.t]

    # -- comparison helpers ---------------------------------------------------
    def fail(self, invariant, op, got, expected, detail=None):
        finding = self.known.match(
            NAME, {"invariant": invariant, "op": op, "got": got, "expected": expected, "model": self.model}
        )
        if finding is not None:
            self.stats.known_finding(finding)
            return
        raise Violation(invariant, op, r(got), r(expected), detail)

    def expect(self, invariant, op, got, expected, detail=None):
        self.stats.checks += 1
        if not same(got, expected):
            self.fail(invariant, op, got, expected, detail)

    # -- point queries ----------------------------------------------------------
    def keyed(self, fn, key, form):
        """fn(key object): the key in the given form; a one-shot key the
        implementation rejects as not being a sequence is passed again as a list."""
        if form == "gen" and not self.gen_ok:
            form = "list"
        if form == "bytes" and not self.bytes_ok:
            form = "list"
        if form == "reuse":
            self.buf[:] = list(key)
            self.stats.probe("same_list_object_passed_again")
            return fn(self.buf)
        if form not in ("gen", "bytes"):
            return fn(make_key(key, form))
        try:
            return fn(make_key(key, form))
        except (TypeError, AttributeError):
            if form == "gen":
                self.gen_ok = False
                self.stats.probe("one_shot_key_rejected")
            else:
                self.bytes_ok = False
                self.stats.probe("bytes_key_rejected")
            return fn(make_key(key, "list"))

    def q_get(self, key, form, op):
        got = self.keyed(lambda k: self.trie.get(k, ABSENT), key, form)
        self.expect("get", op, got, self.model.get(key, ABSENT), {"key": list(key), "form": form})

    def q_getitem(self, key, form, op):
        try:
            got = self.keyed(lambda k: self.trie[k], key, form)
        except KeyError:
            got = "KeyError"
            if key not in self.model:
                self.stats.probe("keyerror")
        expected = self.model[key] if key in self.model else "KeyError"
        self.expect("getitem", op, got, expected, {"key": list(key), "form": form})

    def q_lmpv(self, key, form, op):
        got = self.keyed(self.trie.longest_matching_prefix_value, key, form)
        expected = model_lmpv(self.model, key)
        self.expect("lmpv", op, got, expected, {"key": list(key), "form": form})

    def q_len(self, op):
        self.expect("len", op, sut_len(self.trie), len(self.model))
        # a container is true exactly when it holds something
        try:
            truth = bool(self.trie)
        except (TypeError, ValueError, OverflowError) as exc:
            raise Violation("truthiness", op, "%s: %s" % (type(exc).__name__, exc), repr(bool(self.model)))
        self.expect("truthiness", op, truth, bool(self.model))

    def judge_iteration(self, kind, got, op):
        # got: list collected from a traversal with no mutation in between
        model = self.model
        self.stats.checks += 1
        if kind in ("items", "iter"):
            ok = len(got) == len(model)
            seen = {}
            if ok:
                for item in got:
                    if not (isinstance(item, tuple) and len(item) == 2):
                        ok = False
                        break
                    k = tuple(item[0])
                    if k in seen or k not in model or not same(item[1], model[k]):
                        ok = False
                        break
                    seen[k] = True
            if not ok:
                self.fail("iteration", op, sorted(r(x) for x in got), sorted(r((list(k), v)) for k, v in model.items()), {"kind": kind})
        elif kind == "prefixes":
            keys = [tuple(p) for p in got]
            if sorted(keys, key=repr) != sorted(model, key=repr):
                self.fail("iteration", op, sorted(r(list(k)) for k in keys), sorted(r(list(k)) for k in model), {"kind": kind})
        else:
            a = sorted(r(v) for v in got)
            b = sorted(r(v) for v in model.values())
            if a != b:
                self.fail("iteration", op, a, b, {"kind": kind})

    def entries_now(self, rec):
        return len(self.models[rec["t"]])

    def open_iter(self, kind):
        t = self.trie
        if kind == "items":
            return t.items()
        if kind == "prefixes":
            return t.prefixes()
        if kind == "values":
            return t.values()
        return iter(t)

    def sweep(self, op, force=False):
        sw = self.cfg.get("sweep") or {}
        stride = 1 if force else sw.get("stride", 1)
        do_iter = force or sw.get("iter", True)
        self.sweeps += 1
        off = self.sweeps % stride
        # every other complete observation starts with the traversals: nothing has
        # then been asked of the container since the last assignment
        iter_first = do_iter and self.sweeps % 2 == 1
        if iter_first:
            for kind in ITER_KINDS:
                self.judge_iteration(kind, bounded(self.open_iter(kind), len(self.model)), op)
        forms = ("list", "tuple", "gen", "reuse")
        n = 0
        for key in self.universe:
            n += 1
            if n % stride != off:
                continue
            form = forms[n % 4]
            self.q_get(key, form, op)
            self.q_getitem(key, forms[(n + 1) % 4], op)
            self.q_lmpv(key, forms[(n + 2) % 4], op)
        self.q_len(op)
        if do_iter:
            for kind in ITER_KINDS:
                got = bounded(self.open_iter(kind), len(self.model))
                self.judge_iteration(kind, got, op)
                # a consumer may do what it likes with the key lists it was handed
                for item in got:
                    k = item[0] if kind in ("items", "iter") and isinstance(item, tuple) and item else item
                    if kind != "values" and isinstance(k, list):
                        k.append("consumer-owned")
        self.stats.state(state_text(self.model), nontrivial=bool(self.model))

    # -- one event ----------------------------------------------------------------
    def mutation_begins(self):
        for rec in self.iters.values():
            if rec["t"] == self.t and not rec["dirty"]:
                rec["dirty"] = True
                self.stats.probe("iterator_overtaken_by_mutation")

    def step(self, ev):
        op = ev["op"]
        stats = self.stats
        if op.startswith("iter_") and op != "iter_open":
            rec = self.iters.get(ev["it"])
            if rec is None:
                return
            self.t = rec["t"]
        else:
            self.t = ev.get("t", 0)
            if self.t >= len(self.tries):
                return
        if len(self.tries) > 1:
            stats.probe("second_instance_in_process")
        model = self.model
        if "key" in ev:
            ev = dict(ev, key=[dec_token(t) for t in ev["key"]])
        if op == "set":
            key = tuple(ev["key"])
            value = dec_value(ev["val"])
            self.mutation_begins()
            before = state_text(model) if stats.collect else ""
            if key in model:
                stats.probe("overwrite")
            if not key:
                stats.probe("empty_key_set")
            if value is None:
                stats.probe("none_stored")
            elif not value:
                stats.probe("falsy_stored")
            if any(k != key and k[: len(key)] == key for k in model):
                stats.probe("key_prefix_of_existing")
            if any(k != key and key[: len(k)] == k for k in model):
                stats.probe("key_extends_existing")
            stats.probe(ev["form"] + "_form")
            def assign(passed):
                self.trie[passed] = value
                if isinstance(passed, list) and passed is not self.buf:
                    # the key object stays the caller's: reusing or changing it after
                    # the call must not reach into the container
                    passed[:] = ["caller", "reuses", "its", "list"]

            self.keyed(assign, key, ev["form"])
            model[key] = value
            stats.event("%s|set|%s|%s|%s" % (ev.get("c"), canon(ev["key"]), ev["form"], canon(ev["val"])))
            stats.transition(before + "|set|" + canon(ev["key"]) + canon(ev["val"]))
            self.sweep("set")
        elif op == "set_fault":
            key = tuple(ev["key"])
            k = min(ev["k"], len(key))
            # a call that fails still walks (and may extend) the structure: like
            # any mutating call it ends the judging of live iterators
            self.mutation_begins()
            for attempt in range(1 + ev.get("retry", 0)):
                outcome = "returned"
                try:
                    self.trie[faulty_key(key, k, ev["kind"])] = dec_value(ev["val"])
                except SimFault:
                    outcome = "SimFault"
                except (TypeError, KeyError, ValueError):
                    outcome = "rejected"
                stats.event("%s|set_fault|%s|%s|%d|%s|attempt %d" % (ev.get("c"), canon(ev["key"]), ev["kind"], k, outcome, attempt))
                stats.fault(ev["kind"])
                if attempt:
                    stats.probe("failed_call_retried")
                if ev["kind"] == "key_iter_raises":
                    if outcome == "rejected" and self.gen_ok:
                        # rejected because the key is no real sequence? then a
                        # healthy one-shot key is rejected by the assignment too
                        try:
                            self.trie[make_key(key, "gen")] = dec_value(ev["val"])
                        except (TypeError, AttributeError):
                            self.gen_ok = False
                            stats.probe("one_shot_key_rejected")
                    if not self.gen_ok and outcome == "rejected":
                        continue
                    # the caller's own exception must come back to the caller
                    self.expect("failed_assignment_propagates", "set_fault", outcome, "SimFault", {"key": ev["key"], "k": k, "attempt": attempt})
                elif outcome == "returned":
                    raise HarnessError("an assignment whose key iterable raised returned normally")
            # the model is unchanged
            self.sweep("set_fault")
        elif op in ("get", "get_default", "getitem", "lmpv"):
            key = tuple(ev["key"])
            form = ev.get("form", "list")
            if op == "get":
                got = self.keyed(self.trie.get, key, form)
                exp = model.get(key)
                self.expect("get", op, got, exp, {"key": ev["key"], "form": form})
            elif op == "get_default":
                d = dec_value(ev["default"])
                got = self.keyed(lambda k: self.trie.get(k, d), key, form)
                exp = model.get(key, d)
                self.expect("get", op, got, exp, {"key": ev["key"], "form": form, "default": ev["default"]})
            elif op == "getitem":
                self.q_getitem(key, form, op)
                got = None
            else:
                self.q_lmpv(key, form, op)
                got = None
                hit = [n for n in range(len(key) + 1) if key[:n] in model]
                if hit and hit[-1] < len(key):
                    stats.probe("lmpv_strict_prefix_hit")
                if hit and model[key[: hit[-1]]] is None:
                    stats.probe("lmpv_longest_is_none")
            stats.event("%s|%s|%s|%s" % (ev.get("c"), op, canon(ev["key"]), form))
        elif op == "foreign_prune":
            from ural.classes import TrieDict

            other = TrieDict()
            a, b = self.cfg["alphabet"][0], self.cfg["alphabet"][-1]
            other[[a, b]] = "foreign-1"
            other[[a, b, a]] = "foreign-2"
            other[[a, b, b, a]] = "foreign-3"
            other.set_and_prune_if_shorter([a], "foreign-4")
            stats.probe("foreign_instance_pruned")
            stats.event("X|foreign_prune")
        elif op == "flood":
            n = min(int(ev.get("n", 0)), 20000)
            trie = self.trie
            for i in range(n):
                key = ["flood", i]
                stats.checks += 1
                if trie.get(key, ABSENT) is not ABSENT or trie.longest_matching_prefix_value(key) is not model_lmpv(model, tuple(key)):
                    self.fail("get", op, "a value", "absent", {"key": key})
            stats.probe("flood_of_distinct_lookups")
            stats.event("%s|flood|%d" % (ev.get("c"), n))
            self.sweep("flood", force=True)
        elif op == "len":
            self.q_len(op)
            stats.event("%s|len|%d" % (ev.get("c"), len(model)))
        elif op == "iter_open":
            if ev["it"] in self.iters:
                return
            self.iters[ev["it"]] = {"gen": self.open_iter(ev["kind"]), "kind": ev["kind"], "got": [], "dirty": False, "t": self.t}
            if len(self.iters) > 1:
                stats.probe("iterators_interleaved")
            stats.event("%s|iter_open|%s" % (ev["it"], ev["kind"]))
        elif op in ("iter_next", "iter_drain"):
            rec = self.iters.get(ev["it"])
            if rec is None:
                return
            n = ev.get("n", 1) if op == "iter_next" else 4 * self.entries_now(rec) + 64
            done = False
            try:
                while n > 0:
                    n -= 1
                    try:
                        rec["got"].append(next(rec["gen"]))
                    except StopIteration:
                        done = True
                        break
            except RuntimeError:
                if not rec["dirty"]:
                    raise
                done = True
            stats.event("%s|%s|%d|%s" % (ev["it"], op, len(rec["got"]), done))
            if done:
                del self.iters[ev["it"]]
                if not rec["dirty"]:
                    stats.probe("iterator_judged")
                    self.judge_iteration(rec["kind"], rec["got"], "iter_drain")
        elif op == "iter_cancel":
            rec = self.iters.pop(ev["it"], None)
            if rec is None:
                return
            if ev["how"] == "close" and hasattr(rec["gen"], "close"):
                rec["gen"].close()
            elif ev["how"] == "drop" or not hasattr(rec["gen"], "throw"):
                # (a plain iterator has neither close() nor throw(): dropping it
                # is the only way to abandon it)
                rec["gen"] = None  # the caller just stops iterating
            else:
                try:
                    rec["gen"].throw(SimCancel())
                except (SimCancel, StopIteration):
                    pass
            stats.fault("iter_cancel")
            stats.probe("iter_cancelled")
            stats.event("%s|iter_cancel|%s|%d" % (ev["it"], ev["how"], len(rec["got"])))
            # the container must be unaffected by an abandoned traversal
            self.sweep("iter_cancel", force=True)
        else:
            raise HarnessError("unknown event %r" % (ev,))


def execute(case, stats, known):
    run = Run(case["config"], stats, known)
    for ev in case["events"]:
        run.step(ev)
    for t in range(len(run.tries)):
        run.t = t
        run.sweep("end", force=True)


# -----------------------------------------------------------------------------
# Shrinking helpers used by the minimiser
# -----------------------------------------------------------------------------
def shrink_event(config, ev):
    out = []
    key = ev.get("key")
    if key:
        e = dict(ev)
        e["key"] = key[:-1]
        if "k" in e:
            e["k"] = min(e["k"], len(e["key"]))
        out.append(e)
        first = config["alphabet"][0]
        for i, t in enumerate(key):
            if t != first:
                e = dict(ev)
                e["key"] = key[:i] + [first] + key[i + 1 :]
                out.append(e)
    if ev.get("form") not in (None, "list"):
        e = dict(ev)
        e["form"] = "list"
        out.append(e)
    if "val" in ev and ev["val"] != {"c": 1}:
        e = dict(ev)
        e["val"] = {"c": 1}
        out.append(e)
    if ev.get("k", 0) > 0:
        e = dict(ev)
        e["k"] = ev["k"] - 1
        out.append(e)
    if ev.get("retry"):
        e = dict(ev)
        e["retry"] = ev["retry"] - 1
        out.append(e)
    if ev.get("op") == "flood" and ev.get("n", 0) > 1:
        e = dict(ev)
        e["n"] = ev["n"] // 2
        out.append(e)
    return out


def shrink_config(case):
    cfg = case["config"]
    out = []
    if cfg.get("sweep") not in (None, {"iter": True, "stride": 1}):
        c = dict(cfg)
        c["sweep"] = {"iter": True, "stride": 1}
        out.append({"config": c, "events": case["events"]})
    if cfg["depth"] > 1:
        c = dict(cfg)
        c["depth"] = cfg["depth"] - 1
        out.append({"config": c, "events": case["events"]})
    if cfg.get("tries", 1) > 1:
        c = dict(cfg)
        c["tries"] = 1
        out.append({"config": c, "events": [dict(e, t=0) for e in case["events"] if e.get("t", 0) == 0 or "t" not in e]})
    used = set()
    for ev in case["events"]:
        used.update(ev.get("key", ()))
    if len(cfg["alphabet"]) > 2:
        for t in cfg["alphabet"]:
            if t not in used:
                c = dict(cfg)
                c["alphabet"] = [x for x in cfg["alphabet"] if x != t]
                out.append({"config": c, "events": case["events"]})
                break
    return out


# -----------------------------------------------------------------------------
# Known-finding matchers (structural predicate + the specific wrong answer)
# -----------------------------------------------------------------------------
def match_len_ignores_empty_key(d):
    return (
        d["invariant"] == "len"
        and () in d["model"]
        and isinstance(d["got"], int)
        and d["got"] == d["expected"] - 1
    )


MATCHERS = {"len_ignores_empty_key": match_len_ignores_empty_key}

RULE = (
    "one case = one seeded history of TrieDict operations by 1-4 writer clients, readers and live iterator tasks "
    "interleaved by the schedule PRNG on one or two independent TrieDict instances, with faults landing inside "
    "assignments (key iterable raising after k tokens, unhashable token at position k, each possibly retried at once) "
    "and traversals cancelled at any step; shapes: small (2 tokens, depth 1-3), mixed pools (incl. empty-string and "
    "non-string tokens), wide (8-12 tokens), deep (keys up to 6 tokens). After mutating events the keys of length "
    "0..depth+1 are queried through get/[]/longest_matching_prefix_value and len/items/prefixes/values/__iter__ are "
    "compared with a dict model (how much of this is done after each mutation is itself part of the per-run "
    "configuration; always completely at run end and after a cancellation). distinct_nontrivial = number of distinct "
    "abstract model states (hash of the sorted key->value map) reached that hold at least one entry."
)
ASSUMPTIONS = [
    "operations are atomic: TrieDict documents no thread safety, so pre-emption inside a call is not simulated",
    "set_and_prune_if_shorter is not mixed into C10 histories (the statement is about assignments); it is exercised under C09",
    "an iterator overtaken by a mutation is not judged (any output accepted), exactly as for a Python dict",
    "sampled histories: a clean batch is evidence, not proof",
]

TIERS = {
    "quick": {"runs": 24000, "chunk": 250, "budget_s": 60},
    "thorough": {"runs": 1200000, "chunk": 1000, "budget_s": 1500},
}
PROBES = [
    "overwrite",
    "empty_key_set",
    "none_stored",
    "falsy_stored",
    "key_prefix_of_existing",
    "key_extends_existing",
    "str_form",
    "tuple_form",
    "gen_form",
    "keyerror",
    "same_list_object_passed_again",
    "lmpv_strict_prefix_hit",
    "lmpv_longest_is_none",
    "iterators_interleaved",
    "iterator_judged",
    "iterator_overtaken_by_mutation",
    "iter_cancelled",
    "second_instance_in_process",
    "failed_call_retried",
]
NO_SEAM = (
    "TrieDict has no I/O, clock, thread or network seam: message loss, partitions, clock skew, disk and "
    "allocation faults cannot be injected; the only faults are caller-side failures inside an assignment "
    "and cancellation of live traversals"
)
