# =============================================================================
# C09 — HostnameTrieSet is the set of all hosts at or under the added domains
# =============================================================================
#
# System under test: shared ural.classes.HostnameTrieSet objects (real code:
# the class, TrieDict.set_and_prune_if_shorter / longest_matching_prefix_value /
# prefixes, tokenize_hostname, decode_punycode_hostname, safe_urlsplit,
# is_special_host).  No stub.
# Reference model: the set A of added label tuples (canonical = lower-case
# Unicode labels).
# Workload families:
#   random    — small-scope seeded histories by 1-4 writer clients
#   schedules — one add multiset replayed under K seeded schedules into K tries
#   bundled   — the repository's import-time histories (SHORTENER_DOMAINS,
#               YOUTUBE_DOMAINS, + SHOULD_RESOLVE_DOMAINS) in list order and in
#               seeded shuffles, plus the module-level tries themselves
# Faults: iterator cancellation at an arbitrary step, add() of a non-string.
#
import re

from sim.core import sut_len, bounded, HarnessError, Violation, canon, geometric, r, stream, weighted_choice

NAME = "C09"

# atoms: canonical (lower-case Unicode) labels
POOLS = {
    "ab": ["a", "b"],
    "abc": ["a", "b", "c"],
    "abcd": ["a", "b", "c", "d"],
    "real": ["www", "lemonde", "fr", "co", "uk", "blog"],
    "idn": ["télérama", "fr", "рф", "www", "bücher"],
    # A-labels whose payload starts with a letter of the ACE prefix itself (xn--nio-8ma, xn--xnon-bpa, xn--nrnberg-n2a)
    "idn2": ["ni\u00f1o", "com", "x\u00e9non", "rh\u00f4ne-alpes", "n\u00fcrnberg", "www"],  # …and an A-label with a hyphen inside its ASCII part (xn--rhne-alpes-sbb)
    "edge": ["localhosting", "com", "x-1", "a1", "1a"],
    "digits": ["1", "22", "com", "a"],
    # labels that are string-suffixes of each other: whole labels must be compared
    "suffixy": ["a", "ba", "a-b", "com"],
    # many sibling labels under one parent / long label chains
    # label kinds: one letter, hyphen, underscore, leading digit, 63 characters,
    # non-BMP and combining-mark labels (all round-trip through the idna codec)
    "kinds": ["x", "a-b", "a_b", "9lives", "a" * 63, "\U0001F34A", "\u00e9\u0301", "\U00020BB7\u91ce\u5bb6"],
    "wide": ["a", "b", "c", "d", "e", "f", "g", "h", "i"],
    "deep": ["a", "b"],
}
POOL_ORDER = ["ab", "abc", "abcd", "real", "idn", "idn2", "edge", "digits", "suffixy", "kinds", "wide", "deep"]
URL_FORMS = ["http", "bare", "port", "schemeless", "auth", "split", "https_q", "auth_noport", "user_only", "upper_scheme", "query_only", "frag_only", "bare_port", "bare_query", "bare_user", "bare_dslash", "bare_q_url", "auth_esc"]
NONSTRING = ["none", "int", "list", "bytes"]
FAULT_KINDS = ["iter_cancel", "add_raises"]

COMPONENTS = {
    "real": [
        "ural.classes.hostname_trie_set.HostnameTrieSet",
        "ural.classes.trie_dict.TrieDict (set_and_prune_if_shorter, longest_matching_prefix_value, prefixes, __len__)",
        "ural.utils.safe_urlsplit / decode_punycode_hostname",
        "ural.has_special_host.is_special_host",
        "module-level tries of ural.is_shortened_url, ural.youtube, ural.should_resolve (bundled family)",
    ],
    "stub": [],
}


class SimCancel(Exception):
    pass


URL_CACHE = {}


# -----------------------------------------------------------------------------
# Spelling of labels, hosts and URLs (all deterministic functions of the event)
# -----------------------------------------------------------------------------
def puny(label):
    if all(ord(ch) < 128 for ch in label):
        return label
    return label.encode("idna").decode("ascii")


def case_safe(label):
    return label.upper().lower() == label


def puny_safe(label):
    try:
        return puny(label).encode("ascii").decode("idna") == label
    except UnicodeError:
        return False


def spell_label(label, how):
    # a spelling is only used when it denotes the same label again: upper-casing
    # is not reversible for every letter (sharp s, final sigma) and the idna
    # codec maps some characters (ligatures) before encoding
    if how == "upper":
        return label.upper() if case_safe(label) else label
    if how == "puny":
        return puny(label) if puny_safe(label) else label
    if how == "PUNY":
        if not puny_safe(label):
            return label
        return puny(label).upper() if puny(label) != label else (label.upper() if case_safe(label) else label)
    if how == "mixed":
        if not case_safe(label):
            return label
        return "".join(ch.upper() if i % 2 else ch for i, ch in enumerate(label))
    return label


SPELLINGS = ["plain", "upper", "puny", "PUNY", "mixed"]


def spell_host(labels, hows):
    return ".".join(spell_label(l, hows[i % len(hows)]) for i, l in enumerate(labels))


def render_url(host, form):
    if form == "http":
        return "http://%s/p" % host
    if form == "bare":
        return host
    if form == "port":
        return "%s:8080/x?y=1" % host
    if form == "schemeless":
        return "//%s/x" % host
    if form == "auth":
        return "https://u:p@%s:443/#f" % host
    if form == "auth_noport":
        return "http://user:secret@%s/x" % host
    if form == "user_only":
        return "ftp://user@%s:21/" % host
    if form == "upper_scheme":
        return "HTTPS://%s/Path" % host
    if form == "auth_esc":
        return "http://user:pa%%2Fss%%3F@%s/x" % host
    if form == "bare_q_url":
        return "%s/share?u=https://example.org/page" % host
    if form == "bare_dslash":
        # (a single all-letter label followed by '//' reads as a protocol to the
        # library's own PROTOCOL_RE, 'be//x' like 'http//x': not a host spelling)
        return "%s//article1.html" % host if "." in host else host
    if form == "frag_only":
        return "https://%s#section" % host
    if form == "bare_port":
        return "%s:8080" % host
    if form == "bare_query":
        return "%s?next=/x" % host
    if form == "bare_user":
        return "user@%s/p" % host
    if form == "query_only":
        return "http://%s?x=1#frag" % host
    if form == "https_q":
        return "https://%s?q=http://other.example/" % host
    if form == "split":
        from ural.utils import urlsplit

        return urlsplit("http://%s/p" % host)
    raise HarnessError("unknown url form %r" % (form,))


def is_ip_like(labels):
    return len(labels) == 4 and all(l.isdigit() for l in labels)


def canonical_labels(hostname):
    """Independent canonicalisation used for hosts that come from the
    repository's own lists: lower-case, punycode labels decoded."""
    out = []
    for label in hostname.strip().lower().split("."):
        if label.startswith("xn--"):
            try:
                label = label.encode("ascii").decode("idna")
            except UnicodeError:
                pass
        out.append(label)
    return tuple(out)


ORDINARY_RE = re.compile(r"[^\s,/:@?#]+")


def is_ordinary(hostname):
    return bool(ORDINARY_RE.fullmatch(hostname)) and all(hostname.split("."))


def loose_labels(hostname):
    """Labels of a not-quite-hostname under the most generous reading."""
    cleaned = re.sub(r"[\s,/:@?#]", "", hostname).lower()
    return tuple(x for x in cleaned.split(".") if x)


def all_hosts(alphabet, max_depth):
    hosts = []
    layer = [()]
    for _ in range(max_depth):
        layer = [(t,) + h for h in layer for t in alphabet]
        hosts.extend(layer)
    return [h for h in hosts if not is_ip_like(h)]


# -----------------------------------------------------------------------------
# Model
# -----------------------------------------------------------------------------
class Model(object):
    def __init__(self):
        self.added = set()

    def add(self, labels):
        self.added.add(labels)

    def covered(self, labels):
        for i in range(len(labels)):
            if labels[i:] in self.added:
                return True
        return False

    def minimal(self):
        out = []
        for a in self.added:
            if not any(a[i:] in self.added for i in range(1, len(a))):
                out.append(a)
        return sorted(out)

    def text(self):
        return repr(self.minimal())


# -----------------------------------------------------------------------------
# Generation
# -----------------------------------------------------------------------------
def generate(seed, run, tier):
    crng = stream(NAME, seed, run, "config")
    wrng = stream(NAME, seed, run, "workload")
    srng = stream(NAME, seed, run, "schedule")
    frng = stream(NAME, seed, run, "faults")

    family = weighted_choice(crng, [("random", 70), ("schedules", 28), ("bundled", 2 if tier == "quick" else 1)])
    if family == "bundled":
        return generate_bundled(crng, srng)

    pool = weighted_choice(crng, [("ab", 30), ("abc", 25), ("abcd", 8), ("real", 12), ("idn", 9), ("idn2", 6), ("edge", 8), ("digits", 5), ("suffixy", 6), ("kinds", 7), ("wide", 5), ("deep", 8)])
    alphabet = POOLS[pool]
    if pool in ("real", "idn", "idn2", "edge", "digits", "abcd", "suffixy") and crng.random() < 0.5:
        alphabet = alphabet[: crng.choice([3, 4])]
    if pool == "kinds":
        alphabet = crng.sample(alphabet, 3)
    depth = crng.choice([2, 3, 3])
    if pool == "wide":
        depth = 2
    elif pool == "deep":
        depth = crng.choice([5, 6])
    elif pool == "ab" and crng.random() < 0.3:
        depth = 4  # long shared chains with a prune far above the fork
    cap = 64 if tier == "quick" else 200
    length = geometric(crng, 8 if len(alphabet) <= 2 else 12, cap, lo=1)
    spell_mode = crng.choice(["plain", "plain", "varied"])
    enabled = [k for k in FAULT_KINDS if crng.random() < 0.6] if crng.random() < 0.5 else []
    fault_rate = crng.choice([0.03, 0.08, 0.15]) if enabled else 0.0
    n_iters = crng.choice([0, 0, 1, 2])
    n_readers = crng.choice([0, 1, 2])
    # observation schedule (swarm): see c10 — not every run sweeps everything
    # (and iterates) right after every add
    sweep = weighted_choice(crng, [({"iter": True, "stride": 1}, 60), ({"iter": False, "stride": 1}, 15), ({"iter": False, "stride": 3}, 15), ({"iter": True, "stride": 2}, 10)])
    config = {"family": family, "alphabet": alphabet, "depth": depth, "tries": 1, "fault_class": bool(enabled), "sweep": sweep}

    def draw_host(maxdepth):
        while True:
            n = wrng.choice([1, 2, 2, 3, 3, 3, 4][: 1 + 2 * maxdepth])
            if maxdepth > 4 and wrng.random() < 0.5:
                n = wrng.randint(3, maxdepth)
            n = min(n, maxdepth)
            labels = [wrng.choice(alphabet) for _ in range(n)]
            if not is_ip_like(labels):
                return labels

    def draw_hows():
        if spell_mode == "plain":
            return ["plain"]
        return [wrng.choice(SPELLINGS) for _ in range(wrng.randint(1, 3))]

    def add_event(labels):
        ev = {"op": "add", "host": labels, "hows": draw_hows()}
        if spell_mode == "varied" and wrng.random() < 0.15:
            ev["pad"] = wrng.choice([" ", "\t", "\n"])
        return ev

    adds = [add_event(draw_host(depth)) for _ in range(length)]
    # bias: make some adds the parent / a child / a duplicate of an earlier add
    for i in range(1, len(adds)):
        x = wrng.random()
        j = wrng.randrange(i)
        other = adds[j]["host"]
        if x < 0.15 and len(other) > 1:
            adds[i]["host"] = other[1:]
        elif x < 0.30 and len(other) < depth:
            adds[i]["host"] = [wrng.choice(alphabet)] + other
        elif x < 0.38:
            adds[i]["host"] = list(other)

    events = []
    if family == "schedules":
        k = crng.choice([2, 3, 4])
        config["tries"] = k
        orders = []
        for t in range(k):
            order = list(range(len(adds)))
            how = srng.choice(["shuffle", "shuffle", "reverse", "short_first", "long_first"]) if t else "asis"
            if how == "shuffle":
                srng.shuffle(order)
            elif how == "reverse":
                order.reverse()
            elif how == "short_first":
                order.sort(key=lambda i: len(adds[i]["host"]))
            elif how == "long_first":
                order.sort(key=lambda i: -len(adds[i]["host"]))
            orders.append(order)
        # the scheduler interleaves the K replays of the multiset
        cursors = [0] * k
        while any(cursors[t] < len(adds) for t in range(k)):
            t = srng.randrange(k)
            if cursors[t] >= len(adds):
                continue
            ev = dict(adds[orders[t][cursors[t]]])
            cursors[t] += 1
            ev["t"] = t
            ev["c"] = "W%d" % t
            events.append(ev)
        events.append({"op": "cross_check", "c": "X"})
        return {"config": config, "events": events}

    n_writers = crng.choice([1, 1, 2, 3, 4])
    # sometimes two independent sets live in the process: no shared state
    n_tries = crng.choice([1, 1, 1, 2])
    config["tries"] = n_tries
    scripts = [[] for _ in range(n_writers)]
    for ev in adds:
        w = wrng.randrange(n_writers)
        ev["t"] = w % n_tries
        scripts[w].append(ev)
    tasks = [("W", i) for i in range(n_writers)] + [("R", i) for i in range(n_readers)] + [("I", i) for i in range(n_iters)]
    live = {}
    budget = length * 4 + 8
    while any(scripts) and len(events) < budget:
        kind, idx = srng.choice(tasks)
        if kind == "W":
            if not scripts[idx]:
                continue
            ev = scripts[idx].pop(0)
            ev["c"] = "W%d" % idx
            if "iter_cancel" in enabled:
                for it in sorted(live):
                    if frng.random() < 0.5:
                        events.append({"op": "iter_cancel", "it": it, "how": frng.choice(["close", "throw"]), "c": "F"})
                        del live[it]
            if "add_raises" in enabled and frng.random() < fault_rate:
                events.append({"op": "add_nonstring", "what": frng.choice(NONSTRING), "retry": frng.choice([0, 0, 1, 2]), "c": "W%d" % idx, "t": idx % n_tries})
            events.append(ev)
        elif kind == "R":
            op = weighted_choice(wrng, [("match", 6), ("len", 1), ("match_hostless", 1)])
            ev = {"op": op, "c": "R%d" % idx, "t": idx % n_tries}
            if op == "match":
                ev["host"] = draw_host(depth + 1)
                ev["hows"] = draw_hows()
                ev["form"] = wrng.choice(URL_FORMS)
            elif op == "match_hostless":
                ev["url"] = wrng.choice(["", "http://", "/just/a/path", "http:///p", "?q=a.b"])
            events.append(ev)
        else:
            it = "I%d" % idx
            if it not in live:
                events.append({"op": "iter_open", "it": it, "c": it, "t": idx % n_tries})
                live[it] = True
            elif wrng.random() < 0.3:
                events.append({"op": "iter_drain", "it": it, "c": it})
                del live[it]
            elif "iter_cancel" in enabled and frng.random() < 0.2:
                events.append({"op": "iter_cancel", "it": it, "how": frng.choice(["close", "throw", "drop"]), "c": "F"})
                del live[it]
            else:
                events.append({"op": "iter_next", "it": it, "n": wrng.randint(1, 3), "c": it})
    for it in sorted(live):
        events.append({"op": "iter_drain", "it": it, "c": it})
    if crng.random() < 0.02 and events:
        pos = srng.randrange(len(events) + 1)
        events.insert(pos, {"op": "flood", "n": crng.choice([4200, 8300]), "c": "R9", "t": 0})
    if crng.random() < 0.06 and events:
        # elsewhere in the process a plain TrieDict holds nested valued keys and is
        # pruned: the set's own trie shares nothing with it
        pos = srng.randrange(len(events) + 1)
        events.insert(pos, {"op": "foreign_prune", "c": "X"})
    return {"config": config, "events": events}


# (module defining the trie, trie attribute, [(module, list attribute), ...])
BUNDLED = {
    "shortener": ("ural.is_shortened_url", "SHORTENER_DOMAINS_TRIE", [("ural.is_shortened_url", "SHORTENER_DOMAINS")]),
    "youtube": ("ural.youtube", "YOUTUBE_DOMAINS_TRIE", [("ural.youtube", "YOUTUBE_DOMAINS")]),
    "should_resolve": ("ural.should_resolve", "SHOULD_RESOLVE_TRIE", [("ural.is_shortened_url", "SHORTENER_DOMAINS"), ("ural.should_resolve", "SHOULD_RESOLVE_DOMAINS")]),
}
BUNDLED_ORDER = ["shortener", "youtube", "should_resolve"]


def bundled_list(which):
    import importlib

    out = []
    for modname, attr in BUNDLED[which][2]:
        out.extend(getattr(importlib.import_module(modname), attr))
    return out


def generate_bundled(crng, srng):
    which = crng.choice(BUNDLED_ORDER)
    domains = bundled_list(which)
    mode = crng.choice(["module", "list_order", "shuffle", "shuffle", "reverse"])
    config = {"family": "bundled", "which": which, "mode": mode, "tries": 1, "fault_class": False}
    if mode == "module":
        return {"config": config, "events": [{"op": "check_module_trie", "which": which, "c": "X"}]}
    order = list(range(len(domains)))
    if mode == "shuffle":
        srng.shuffle(order)
    elif mode == "reverse":
        order.reverse()
    checkpoints = sorted(set(srng.randrange(len(order)) for _ in range(3)))
    events = []
    for n, i in enumerate(order):
        events.append({"op": "add_raw", "hostname": domains[i], "c": "W0"})
        if n in checkpoints:
            events.append({"op": "sweep_bundled", "c": "X"})
    events.append({"op": "sweep_bundled", "c": "X"})
    return {"config": config, "events": events}


# -----------------------------------------------------------------------------
# Execution
# -----------------------------------------------------------------------------
class Run(object):
    def __init__(self, config, stats, known):
        from ural.classes.hostname_trie_set import HostnameTrieSet

        self.cfg = config
        self.stats = stats
        self.known = known
        k = config.get("tries", 1)
        self.tries = [HostnameTrieSet() for _ in range(k)]
        self.models = [Model() for _ in range(k)]
        self.iters = {}
        self.universe = None
        if config["family"] != "bundled":
            alphabet = config["alphabet"]
            if len(alphabet) <= 4:
                self.universe = all_hosts(alphabet, config["depth"] + 1)
            else:
                # wide alphabets: all hosts of depth <= 2, then only extensions on
                # the left by the first two labels
                self.universe = all_hosts(alphabet, 2)
                layer = [h for h in self.universe if len(h) == 2]
                for _ in range(config["depth"] - 1):
                    layer = [(l,) + h for h in layer for l in alphabet[:2]]
                    self.universe.extend(layer)
        self.raw_added = []
        self.sweeps = 0

    def fail(self, invariant, op, got, expected, detail=None):
        finding = self.known.match(NAME, {"invariant": invariant, "op": op, "got": got, "expected": expected, "detail": detail})
        if finding is not None:
            self.stats.known_finding(finding)
            return
        raise Violation(invariant, op, r(got), r(expected), detail)

    def check_match(self, t, labels, hows, form, op):
        # pure memo of the rendered URL (a function of its key only)
        key = (tuple(labels), tuple(hows), form)
        url = URL_CACHE.get(key)
        if url is None:
            if len(URL_CACHE) > 200000:
                URL_CACHE.clear()
            url = URL_CACHE[key] = render_url(spell_host(labels, hows), form)
        got = self.tries[t].match(url)
        expected = self.models[t].covered(tuple(labels))
        self.stats.checks += 1
        if bool(got) is not expected:  # 'match is true exactly when': truthiness
            self.fail("match", op, got, expected, {"url": r(url), "host": list(labels), "trie": t})

    def check_len_iter(self, t, op):
        trie, model = self.tries[t], self.models[t]
        minimal = model.minimal()
        self.stats.checks += 2
        n = sut_len(trie)
        if n != len(minimal):
            self.fail("len", op, n, len(minimal), {"trie": t, "minimal": [".".join(a) for a in minimal]})
        self.judge_iteration(t, bounded(trie, len(model.added)), op)

    def entries_now(self, rec):
        return len(self.models[rec["t"]].added)

    def judge_iteration(self, t, got, op):
        expected = sorted(".".join(a) for a in self.models[t].minimal())
        ok = all(isinstance(x, str) for x in got) and sorted(got) == expected
        if not ok:
            self.fail("iteration", op, sorted(r(x) for x in got), expected, {"trie": t})

    def sweep(self, t, op, force=False):
        sw = self.cfg.get("sweep") or {}
        stride = 1 if force else sw.get("stride", 1)
        do_iter = force or sw.get("iter", True)
        self.sweeps += 1
        base = self.sweeps
        off = base % stride
        # every other complete observation starts with the traversal: nothing —
        # not even len() or a match — has then been asked since the last add
        iter_first = do_iter and base % 2 == 1
        if iter_first:
            self.stats.checks += 1
            self.judge_iteration(t, bounded(self.tries[t], len(self.models[t].added)), op)
        n = 0
        for labels in self.universe:
            n += 1
            if n % stride != off:
                continue
            form = URL_FORMS[(n + base) % len(URL_FORMS)]
            hows = [SPELLINGS[(n + base) % len(SPELLINGS)], SPELLINGS[(n // 3 + base) % len(SPELLINGS)]]
            self.check_match(t, labels, hows, form, op)
        if do_iter:
            self.check_len_iter(t, op)
        else:
            self.stats.checks += 1
            n_min = len(self.models[t].minimal())
            if sut_len(self.tries[t]) != n_min:
                self.fail("len", op, sut_len(self.tries[t]), n_min, {"trie": t})
        model = self.models[t]
        self.stats.state(model.text(), nontrivial=bool(model.added))

    def full_sweep(self, t, op):
        # three more rotations of (URL form, label spelling) over the universe
        for _ in range(3):
            self.sweep(t, op, force=True)

    def mutation_begins(self, t):
        for rec in self.iters.values():
            if rec["t"] == t and not rec["dirty"]:
                rec["dirty"] = True
                self.stats.probe("iterator_overtaken_by_mutation")

    # -- bundled family -----------------------------------------------------------
    def bundled_queries(self, hostnames):
        for h in hostnames:
            labels = canonical_labels(h)
            yield labels
            yield ("sub",) + labels
            yield ("a", "b") + labels
            if len(labels) > 1:
                yield labels[1:]
            yield ("x" + labels[0],) + labels[1:]
            yield labels[:-1] + (labels[-1] + "x",)
            yield labels + ("zz",)

    def sweep_trie_against(self, trie, hostnames, op):
        # The repository's lists hold a few entries that are not ordinary
        # hostnames ('tk.', 'letop10.', 'chl.li,' — trailing dots and commas). The
        # property does not say how such an entry is read (literally, or with the
        # dot stripped), so the history is replayed faithfully but nothing that
        # depends on those entries is judged.
        ordinary = [h for h in hostnames if is_ordinary(h)]
        odd = [loose_labels(h) for h in hostnames if not is_ordinary(h)]
        odd = [o for o in odd if o]

        def related(labels):
            for o in odd:
                k = min(len(o), len(labels))
                if o[len(o) - k :] == labels[len(labels) - k :]:
                    return True
            return False

        model = Model()
        for h in ordinary:
            model.add(canonical_labels(h))
        n = 0
        for labels in self.bundled_queries(ordinary):
            n += 1
            if is_ip_like(labels) or not all(labels) or related(labels):
                continue
            url = render_url(".".join(labels), URL_FORMS[n % len(URL_FORMS)])
            got = trie.match(url)
            expected = model.covered(labels)
            self.stats.checks += 1
            if bool(got) is not expected:  # 'match is true exactly when': truthiness
                self.fail("match", op, got, expected, {"url": r(url), "host": list(labels)})
        minimal = sorted(".".join(a) for a in model.minimal() if not related(a))
        self.stats.checks += 2
        if not odd:
            n_min = len(model.minimal())
            if sut_len(trie) != n_min:
                self.fail("len", op, sut_len(trie), n_min, {"added": len(hostnames)})
        else:
            self.stats.probe("bundled_entries_not_ordinary_hostnames", len(odd))
        got = sorted(g for g in bounded(trie, len(hostnames)) if isinstance(g, str) and is_ordinary(g) and not related(canonical_labels(g)))
        if got != minimal:
            diff = sorted(set(got) ^ set(minimal))[:10] or ["duplicates"]
            self.fail("iteration", op, diff, [], {"added": len(hostnames)})
        self.stats.state("bundled|%d|%s" % (len(hostnames), canon(sorted(hostnames)[:3])))

    # -- one event ----------------------------------------------------------------
    def step(self, ev):
        op = ev["op"]
        stats = self.stats
        t = ev.get("t", 0)
        if t >= len(self.tries):
            return
        if op == "add":
            labels = tuple(ev["host"])
            model = self.models[t]
            before = model.text() if stats.collect else ""
            if labels in model.added:
                stats.probe("duplicate_add")
            elif model.covered(labels):
                stats.probe("add_under_existing_ignored")
            else:
                pruned = [a for a in model.minimal() if len(a) > len(labels) and a[-len(labels):] == labels]
                if len(pruned) >= 2:
                    stats.probe("prune_subtree_ge2")
                if len(set(len(a) for a in pruned)) >= 2:
                    stats.probe("prune_nested_levels")
                if pruned:
                    stats.probe("prune")
            hows = ev.get("hows", ["plain"])
            for h in hows:
                if h in ("upper", "mixed"):
                    stats.probe("case_variant")
                if h in ("puny", "PUNY") and any(puny(l) != l for l in labels):
                    stats.probe("punycode_variant")
            if any(puny(l) != l for l in labels):
                stats.probe("idn_label")
            hostname = spell_host(labels, hows)
            if ev.get("pad"):
                hostname = ev["pad"] + hostname + ev["pad"]
                stats.probe("whitespace_padded")
            self.mutation_begins(t)
            self.tries[t].add(hostname)
            model.add(labels)
            stats.event("%s|add|%d|%s" % (ev.get("c"), t, r(hostname)))
            stats.transition(before + "|add|" + canon(ev["host"]))
            self.sweep(t, "add")
        elif op == "add_nonstring":
            what = ev["what"]
            # the caller may retry the very same call at once; like any mutating
            # call, a failing one ends the judging of live iterators
            self.mutation_begins(t)
            for attempt in range(1 + ev.get("retry", 0)):
                arg = {"none": None, "int": 123, "list": ["a", "b"], "bytes": b"a.b"}[what]
                raised = None
                try:
                    self.tries[t].add(arg)
                except Exception as exc:  # noqa: any exception type is acceptable
                    raised = type(exc).__name__
                stats.event("%s|add_nonstring|%s|%s|attempt %d" % (ev.get("c"), what, raised, attempt))
                if raised is None and attempt == 0:
                    # accepted: the property says nothing about such input; stop
                    # judging this trie rather than guess what it now contains
                    stats.probe("add_nonstring_accepted")
                    raise StopRun()
                if raised is None:
                    # rejected a moment ago, silently returning now: tolerated as such;
                    # the sweep below still demands that nothing was added
                    stats.probe("retried_add_returned_silently")
                stats.fault("add_raises")
                if attempt:
                    stats.probe("failed_call_retried")
            self.sweep(t, "add_nonstring")
        elif op == "match":
            self.check_match(t, ev["host"], ev.get("hows", ["plain"]), ev["form"], op)
            stats.event("%s|match|%s|%s" % (ev.get("c"), canon(ev["host"]), ev["form"]))
        elif op == "foreign_prune":
            from ural.classes import TrieDict

            other = TrieDict()
            labels = list(self.cfg.get("alphabet") or ["a", "b"])
            a, b = labels[0], labels[-1]
            other[[a, b]] = "foreign-1"
            other[[a, b, a]] = "foreign-2"
            other[[b, a, b, a]] = "foreign-3"
            other.set_and_prune_if_shorter([a], "foreign-4")
            other.set_and_prune_if_shorter([b], "foreign-5")
            stats.probe("foreign_instance_pruned")
            stats.event("X|foreign_prune")
        elif op == "flood":
            # thousands of distinct hostnames (more than a bounded cache holds)
            n = min(int(ev.get("n", 0)), 20000)
            trie, model = self.tries[t], self.models[t]
            tail = self.cfg["alphabet"][0] if self.cfg.get("alphabet") else "zz"
            for i in range(n):
                labels = ("flood%d" % i, tail)
                got = trie.match("http://flood%d.%s/" % (i, tail))
                stats.checks += 1
                if bool(got) is not model.covered(labels):
                    self.fail("match", op, got, model.covered(labels), {"host": list(labels)})
            stats.probe("flood_of_distinct_lookups")
            stats.event("%s|flood|%d" % (ev.get("c"), n))
            self.sweep(t, "flood", force=True)
        elif op == "foreign_prune":
            from ural.classes import TrieDict

            other = TrieDict()
            labels = list(self.cfg.get("alphabet") or ["a", "b"])
            a, b = labels[0], labels[-1]
            other[[a, b]] = "foreign-1"
            other[[a, b, a]] = "foreign-2"
            other[[b, a, b, a]] = "foreign-3"
            other.set_and_prune_if_shorter([a], "foreign-4")
            other.set_and_prune_if_shorter([b], "foreign-5")
            stats.probe("foreign_instance_pruned")
            stats.event("X|foreign_prune")
        elif op == "flood":
            # thousands of distinct hostnames (more than a bounded cache holds)
            n = min(int(ev.get("n", 0)), 20000)
            trie, model = self.tries[t], self.models[t]
            tail = self.cfg["alphabet"][0] if self.cfg.get("alphabet") else "zz"
            for i in range(n):
                labels = ("flood%d" % i, tail)
                got = trie.match("http://flood%d.%s/" % (i, tail))
                stats.checks += 1
                if bool(got) is not model.covered(labels):
                    self.fail("match", op, got, model.covered(labels), {"host": list(labels)})
            stats.probe("flood_of_distinct_lookups")
            stats.event("%s|flood|%d" % (ev.get("c"), n))
            self.sweep(t, "flood", force=True)
        elif op == "match_hostless":
            got = self.tries[t].match(ev["url"])
            stats.checks += 1
            if bool(got) is not False:
                self.fail("match", op, got, False, {"url": ev["url"]})
            stats.event("%s|match_hostless|%s" % (ev.get("c"), r(ev["url"])))
        elif op == "len":
            n = sut_len(self.tries[t])
            exp = len(self.models[t].minimal())
            stats.checks += 1
            if n != exp:
                self.fail("len", op, n, exp, {"trie": t})
            stats.event("%s|len|%d" % (ev.get("c"), exp))
        elif op == "iter_open":
            if ev["it"] in self.iters:
                return
            self.iters[ev["it"]] = {"gen": iter(self.tries[t]), "got": [], "dirty": False, "t": t}
            if len(self.iters) > 1:
                stats.probe("iterators_interleaved")
            stats.event("%s|iter_open" % ev["it"])
        elif op in ("iter_next", "iter_drain"):
            rec = self.iters.get(ev["it"])
            if rec is None:
                return
            n = ev.get("n", 1) if op == "iter_next" else 4 * self.entries_now(rec) + 64
            done = False
            try:
                while n > 0:
                    n -= 1
                    try:
                        rec["got"].append(next(rec["gen"]))
                    except StopIteration:
                        done = True
                        break
            except RuntimeError:
                if not rec["dirty"]:
                    raise
                done = True
            stats.event("%s|%s|%d|%s" % (ev["it"], op, len(rec["got"]), done))
            if done:
                del self.iters[ev["it"]]
                if not rec["dirty"]:
                    stats.probe("iterator_judged")
                    stats.checks += 1
                    self.judge_iteration(rec["t"], rec["got"], "iter_drain")
        elif op == "iter_cancel":
            rec = self.iters.pop(ev["it"], None)
            if rec is None:
                return
            if ev["how"] == "close" and hasattr(rec["gen"], "close"):
                rec["gen"].close()
            elif ev["how"] == "drop" or not hasattr(rec["gen"], "throw"):
                # (a plain iterator has neither close() nor throw(): dropping it
                # is the only way to abandon it)
                rec["gen"] = None
            else:
                try:
                    rec["gen"].throw(SimCancel())
                except (SimCancel, StopIteration):
                    pass
            stats.fault("iter_cancel")
            stats.probe("iter_cancelled")
            stats.event("%s|iter_cancel|%s|%d" % (ev["it"], ev["how"], len(rec["got"])))
            self.sweep(rec["t"], "iter_cancel", force=True)
        elif op == "cross_check":
            # same multiset, different schedules: identical observations
            obs = []
            for i, trie in enumerate(self.tries):
                obs.append((sut_len(trie), sorted(bounded(trie, len(self.models[i].added))), self.models[i].text()))
            stats.checks += 1
            if any(o[2] != obs[0][2] for o in obs):
                # after minimisation the per-trie multisets may differ; only
                # tries whose models agree are comparable
                stats.probe("cross_check_skipped")
            else:
                stats.probe("schedules_compared", len(obs))
                for i, o in enumerate(obs):
                    if o[:2] != obs[0][:2]:
                        self.fail("order_independence", op, o[:2], obs[0][:2], {"trie": i})
            stats.event("X|cross_check|%d" % len(obs))
        elif op == "add_raw":
            self.tries[0].add(ev["hostname"])
            self.raw_added.append(ev["hostname"])
            stats.event("%s|add_raw|%s" % (ev.get("c"), r(ev["hostname"])))
        elif op == "sweep_bundled":
            self.sweep_trie_against(self.tries[0], self.raw_added, op)
            stats.probe("bundled_history_sweeps")
            stats.event("X|sweep_bundled|%d" % len(self.raw_added))
        elif op == "check_module_trie":
            import importlib

            modname, attr, _ = BUNDLED[ev["which"]]
            trie = getattr(importlib.import_module(modname), attr)
            self.sweep_trie_against(trie, bundled_list(ev["which"]), op)
            stats.probe("module_trie_checked")
            stats.event("X|check_module_trie|%s" % ev["which"])
        else:
            raise HarnessError("unknown event %r" % (ev,))


class StopRun(Exception):
    pass


def execute(case, stats, known):
    run = Run(case["config"], stats, known)
    try:
        for ev in case["events"]:
            run.step(ev)
        if run.universe is not None:
            for t in range(len(run.tries)):
                run.full_sweep(t, "end")
    except StopRun:
        pass


# -----------------------------------------------------------------------------
def shrink_event(config, ev):
    out = []
    host = ev.get("host")
    if host and len(host) > 1:
        e = dict(ev)
        e["host"] = host[1:]
        out.append(e)
    if host and config.get("alphabet"):
        first = config["alphabet"][0]
        for i, l in enumerate(host):
            if l != first:
                e = dict(ev)
                e["host"] = host[:i] + [first] + host[i + 1 :]
                out.append(e)
    if ev.get("hows") not in (None, ["plain"]):
        e = dict(ev)
        e["hows"] = ["plain"]
        out.append(e)
    if ev.get("pad"):
        e = dict(ev)
        del e["pad"]
        out.append(e)
    if ev.get("form") not in (None, "http"):
        e = dict(ev)
        e["form"] = "http"
        out.append(e)
    if ev.get("t"):
        e = dict(ev)
        e["t"] = 0
        out.append(e)
    if ev.get("op") == "flood" and ev.get("n", 0) > 1:
        e = dict(ev)
        e["n"] = ev["n"] // 2
        out.append(e)
    return out


def shrink_config(case):
    cfg = case["config"]
    out = []
    if cfg.get("family") == "bundled":
        return out
    if cfg.get("sweep") not in (None, {"iter": True, "stride": 1}):
        c = dict(cfg)
        c["sweep"] = {"iter": True, "stride": 1}
        out.append({"config": c, "events": case["events"]})
    if cfg.get("tries", 1) > 1:
        c = dict(cfg)
        c["tries"] = cfg["tries"] - 1
        out.append({"config": c, "events": case["events"]})
    if cfg["depth"] > 1:
        c = dict(cfg)
        c["depth"] = cfg["depth"] - 1
        out.append({"config": c, "events": case["events"]})
    used = set()
    for ev in case["events"]:
        used.update(ev.get("host", ()))
    if len(cfg["alphabet"]) > 2:
        for l in cfg["alphabet"]:
            if l not in used:
                c = dict(cfg)
                c["alphabet"] = [x for x in cfg["alphabet"] if x != l]
                out.append({"config": c, "events": case["events"]})
                break
    return out


MATCHERS = {}

TIERS = {
    "quick": {"runs": 4000, "chunk": 50, "budget_s": 60},
    "thorough": {"runs": 250000, "chunk": 250, "budget_s": 1500},
}
PROBES = [
    "prune",
    "prune_subtree_ge2",
    "prune_nested_levels",
    "add_under_existing_ignored",
    "duplicate_add",
    "case_variant",
    "punycode_variant",
    "idn_label",
    "whitespace_padded",
    "schedules_compared",
    "bundled_history_sweeps",
    "module_trie_checked",
    "iterators_interleaved",
    "iterator_judged",
    "iter_cancelled",
    "failed_call_retried",
]
RULE = (
    "one case = one seeded history of HostnameTrieSet.add calls by 1-4 writer clients on one or two independent sets "
    "(family 'random'), or one add multiset replayed under 2-4 seeded schedules into as many sets (family 'schedules'), "
    "or one of the repository's import-time histories in list order / shuffled / the module-level trie itself (family "
    "'bundled'); readers, live iterator tasks and faults (cancellation at any step, add() of a non-string possibly "
    "retried at once) are interleaved by the schedule PRNG; label pools: 2-4 plain labels, realistic, IDN/punycode, "
    "look-alikes (localhosting, digits, string-suffix labels), wide (9 siblings), deep (6 labels). After adds, the "
    "hostnames of depth <= depth+1 over the run's labels are matched (11 URL forms and 5 label spellings rotate per "
    "host and per sweep; three complete rotations at run end), and len / iteration are compared with the minimal "
    "covering set of the model (a set of label tuples); how much is observed after each add is part of the per-run "
    "configuration. distinct_nontrivial = distinct non-empty abstract model states (minimal covering sets) reached."
)
ASSUMPTIONS = [
    "ordinary hostnames only: no label is 'localhost', no host is four all-digit labels (documented as undefined)",
    "IDN labels are restricted to ones that round-trip through Python's idna codec (that codec is trusted) and whose simple lower-casing and full case folding coincide: whether 'straße' and 'strasse' are the same hostname 'case-insensitively' is a matter of reading, so no such pair is generated",
    "operations are atomic; an iterator overtaken by an add is not judged",
    "add() of a non-string must raise and leave the set unchanged; if it is accepted instead the run stops being judged",
    "sampled histories: a clean batch is evidence, not proof",
]
NO_SEAM = (
    "HostnameTrieSet has no I/O, clock, thread or network seam; the only faults are iterator cancellation and "
    "caller-side failure of add(); message loss, partitions, clock skew, disk and allocation faults have nothing to act on"
)
