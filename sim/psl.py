# =============================================================================
# Reference implementation of the publicsuffix.org algorithm, as C08 words it
# =============================================================================
#
# Deliberately nothing like a trie: three sets of label tuples and a scan over
# the suffixes of the host.
#
#   - the suffix is the longest matching rule (by label count);
#   - a wildcard rule '*.p' matches exactly one extra label in front of p,
#     whether or not that label also starts a longer rule;
#   - an exception rule '!x.p' wins over everything and yields its parent p;
#   - a host matched by no rule has no valid suffix (no implicit '*' rule).
#
def normalise_rule(rule):
    """What a tolerant reader might make of a rule: trimmed, lower-cased, without
    a trailing dot."""
    return rule.strip().lower().rstrip(".")


class RuleSet(object):
    def __init__(self, rules, _alt=True):
        self.normal = set()
        self.wild = set()  # parents p of rules '*.p'
        self.exc = set()  # full tuples x.p of rules '!x.p'
        self.n = 0
        # A malformed rule ('a.b.' with a trailing dot, stray upper case or blanks)
        # has no defined meaning: an implementation may take it literally (it then
        # matches nothing) or normalise it. Hosts whose answer depends on that
        # choice are not judged (see ambiguous()).
        self.alt = None
        rules = list(rules)
        if _alt and any(normalise_rule(x) != x for x in rules):
            self.alt = RuleSet([normalise_rule(x) for x in rules], _alt=False)
        for rule in rules:
            self.n += 1
            # rules are taken literally, as the list gives them
            if rule.startswith("!"):
                self.exc.add(tuple(rule[1:].split(".")))
            elif rule.startswith("*."):
                self.wild.add(tuple(rule[2:].split(".")))
            else:
                self.normal.add(tuple(rule.split(".")))

    def suffix_length(self, labels):
        """Number of trailing labels forming the public suffix, or None."""
        n = len(labels)
        for k in range(n, 1, -1):
            if labels[n - k :] in self.exc:
                return k - 1
        best = 0
        for k in range(1, n + 1):
            tail = labels[n - k :]
            if tail in self.normal:
                best = k
            elif k >= 2 and tail[1:] in self.wild:
                best = k
        return best or None

    def ambiguous(self, labels):
        """More than one exception rule matches: the algorithm does not say
        which one prevails (never the case on the real list)."""
        n = len(labels)
        hits = 0
        for k in range(n, 1, -1):
            if labels[n - k :] in self.exc:
                hits += 1
        if hits > 1:
            return True
        if self.alt is not None and self.alt.suffix_length(labels) != self.suffix_length(labels):
            return True  # the answer depends on how a malformed rule is read
        return False

    def split(self, labels):
        k = self.suffix_length(labels)
        if k is None:
            return None
        n = len(labels)
        return ".".join(labels[: n - k]), ".".join(labels[n - k :])

    def domain(self, labels):
        k = self.suffix_length(labels)
        if k is None:
            return None
        n = len(labels)
        if k >= n:
            return ".".join(labels)
        return ".".join(labels[n - k - 1 :])


def parse_psl_text(text):
    """Independent reading of the public_suffix_list.dat format: one rule per
    line, '//' comments, the private section starts at the BEGIN PRIVATE
    marker, and a comment of the form '// xn--… …' announces the punycode
    spelling of the rule that follows (kept as a rule of its own)."""
    public, private = [], []
    in_private = False
    for raw in text.split("\n"):
        if "===BEGIN PRIVATE DOMAINS===" in raw:
            in_private = True
        line = raw.strip()
        if line.startswith("// xn--"):
            line = line.split()[1]
        if not line or line.startswith("/"):
            continue
        (private if in_private else public).append(line)
    return public, private


def _fmt_rule(rule, i, fmt):
    if fmt.get("pad"):
        return ("  ", "\t", "")[i % 3] + rule + (" ", "", "  \t")[i % 3]
    return rule


def _puny_comment(rule):
    """'// xn--… (comment) : XX' as the real list announces the A-label spelling
    of a Unicode rule, or None."""
    if not any(ord(ch) > 127 for ch in rule) or rule.startswith(("!", "*")):
        return None
    try:
        a = ".".join(l.encode("idna").decode("ascii") if any(ord(c) > 127 for c in l) else l for l in rule.split("."))
    except UnicodeError:
        return None
    if not a.startswith("xn--") or a == rule:
        return None
    return '// %s ("Example", Script) : ZZ' % a


def render_psl_text(public, private, fmt=None):
    """The list file as the origin serves it. fmt varies what a valid file may
    vary: CRLF line ends, blanks around rules, no final newline, and the
    '// xn--…' comment lines that announce the A-label spelling of a rule."""
    fmt = fmt or {}
    markers = not fmt.get("nomarkers")
    lines = [
        "// This Source Code Form is subject to the terms of the Mozilla Public",
        "// License, v. 2.0.",
        "",
    ]
    if markers:
        lines += ["// ===BEGIN ICANN DOMAINS===", ""]
    n = 0
    for i, rule in enumerate(public):
        if i % 7 == 3:
            lines.append("")
            lines.append("// section %d : https://example.org/registry" % i)
        if fmt.get("puny"):
            c = _puny_comment(rule)
            if c is not None:
                lines.append(c)
        lines.append(_fmt_rule(rule, n, fmt))
        n += 1
    lines.append("")
    if markers:
        lines.append("// ===END ICANN DOMAINS===")
        lines.append("// ===BEGIN PRIVATE DOMAINS===")
        lines.append("// (Note: these are in alphabetical order by company name)")
    # the section markers are comments: a rule after the last one is a rule
    tail = list(private[-1:]) if fmt.get("tail") and markers else []
    for i, rule in enumerate(private[: len(private) - len(tail)]):
        if i % 5 == 0:
            lines.append("")
            lines.append("// Company %d : https://example.com/" % i)
            lines.append("// Submitted by Someone <someone@example.com>")
        lines.append(_fmt_rule(rule, n, fmt))
        n += 1
    lines.append("")
    if markers:
        lines.append("// ===END PRIVATE DOMAINS===")
    for rule in tail:
        lines.append("")
        lines.append(_fmt_rule(rule, n, fmt))
        n += 1
    eol = "\r\n" if fmt.get("crlf") else "\n"
    return eol.join(lines) + ("" if fmt.get("nofinal") else eol)


def render_tld_text(tlds, fmt=None):
    """tlds-alpha-by-domain.txt as IANA serves it: upper-case A-labels only."""
    fmt = fmt or {}
    lines = ["# Version 2026100300, Last Updated Sat Oct  3 07:07:01 2026 UTC"]
    for t in tlds:
        if any(ord(ch) > 127 for ch in t):
            try:
                t = t.encode("idna").decode("ascii")
            except UnicodeError:
                continue
        lines.append(t.upper())
    eol = "\r\n" if fmt.get("crlf") else "\n"
    return eol.join(lines) + ("" if fmt.get("nofinal") else eol)


def render_data_module(public, private, tlds):
    """tld_data.py exactly as ural.tld.upgrade() writes it."""
    out = ["# coding: utf-8\n", "from __future__ import unicode_literals\n\n", "PUBLIC_SUFFIXES = [\n"]
    for s in public:
        out.append('  "%s",\n' % s)
    out.append("]\n\n")
    out.append("PRIVATE_SUFFIXES = [\n")
    for s in private:
        out.append('  "%s",\n' % s)
    out.append("]\n\n")
    out.append("TLDS = [\n")
    for t in tlds:
        out.append('  "%s",\n' % t)
    out.append("]\n")
    return "".join(out)


def tld_spellings(tlds):
    """(spellings, unjudged). spellings: every spelling under which a listed TLD
    is a valid TLD — the entry itself (lower-cased) and its A-label when the
    standard codec gives one that decodes back to the entry. A label outside this
    set is not a listed TLD, whatever a lax decoder makes of it ('xn--com-' is not
    a spelling of 'com'). unjudged: a data file listing an A-label directly is
    not something upgrade() ever writes (it stores decoded entries); both
    spellings of such an entry are left alone."""
    out = set()
    unjudged = set()
    for t in tlds:
        t = str(t).lower()
        if t.startswith("xn--"):
            unjudged.add(t)
            try:
                unjudged.add(t.encode("ascii").decode("idna"))
            except (UnicodeError, ValueError):
                pass
            continue
        out.add(t)
        try:
            a = t.encode("idna").decode("ascii")
            if a.encode("ascii").decode("idna") == t:
                out.add(a.lower())
        except (UnicodeError, ValueError):
            pass
    return out, unjudged


def tld_listed(spellings, label):
    return label.lstrip(".").lower() in spellings
