# =============================================================================
# Self-tests of the simulator itself
# =============================================================================
#
#   ./check selftest determinism [--runs N] [--seeds a,b,c] [--props C08,C09]
#
# For every claimed property and every seed, the same runs are executed
#   - with 16 workers, each run twice in-process (PYTHONHASHSEED=0),
#   - in a fresh interpreter with PYTHONHASHSEED=1 and 1 worker,
#   - in a fresh interpreter with PYTHONHASHSEED=2 and 5 workers,
# and the sha256 over all event logs must be identical.
#
import argparse
import os
import subprocess
import sys

ROOT = os.path.dirname(os.path.dirname(os.path.abspath(__file__)))


def digest_of(prop, seed, runs, workers, hashseed, double):
    env = dict(os.environ)
    env["PYTHONHASHSEED"] = str(hashseed)
    env["VERIF_SEED"] = str(seed)
    cmd = [sys.executable, "-B", os.path.join(ROOT, "run_check.py"), prop, "--runs", str(runs), "--workers", str(workers), "--evidence-dir", "none", "--no-minimise", "--budget", "600"]
    if double:
        cmd.append("--double")
    p = subprocess.run(cmd, env=env, stdout=subprocess.PIPE, stderr=subprocess.STDOUT, text=True, timeout=1800)
    digest = None
    for line in p.stdout.splitlines():
        if line.startswith("DIGEST "):
            digest = line.split()[1]
    return p.returncode, digest, p.stdout


def determinism(args):
    props = args.props.split(",")
    seeds = [int(s) for s in args.seeds.split(",")]
    bad = 0
    for prop in props:
        for seed in seeds:
            results = []
            for workers, hashseed, double in ((16, 0, True), (1, 1, False), (5, 2, False)):
                rc, digest, out = digest_of(prop, seed, args.runs, workers, hashseed, double)
                results.append((workers, hashseed, rc, digest))
                if rc not in (0, 1) or digest is None:
                    print(out)
            ok = len(set(r[3] for r in results)) == 1 and results[0][3] is not None and len(set(r[2] for r in results)) == 1
            print("%s seed=%d runs=%d %s %s" % (prop, seed, args.runs, "OK" if ok else "DIVERGED", results))
            sys.stdout.flush()
            if not ok:
                bad += 1
    print("determinism: %s" % ("all identical" if not bad else "%d divergences" % bad))
    return 1 if bad else 0


def main(argv):
    ap = argparse.ArgumentParser(prog="check selftest")
    ap.add_argument("what", choices=["determinism", "sensitivity", "seeded"])
    ap.add_argument("--runs", type=int, default=None)
    ap.add_argument("--only", default=None)
    ap.add_argument("--repo", default=os.environ.get("VERIF_REPO", "/repo"))
    ap.add_argument("--seeds", default="0,1,2")
    ap.add_argument("--props", default="C08,C09,C10,C11")
    args = ap.parse_args(argv)
    if args.what == "seeded":
        from sim import sensitivity

        return sensitivity.seeded(args)
    if args.what == "sensitivity":
        from sim import sensitivity

        if args.runs is None:
            args.runs = 3000
        return sensitivity.main(args)
    if args.runs is None:
        args.runs = 300
    return determinism(args)
