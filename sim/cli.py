# =============================================================================
# Driver: ./check <property> --tier quick|thorough   |   --replay <file>
# =============================================================================
import argparse
import faulthandler
import hashlib
import importlib
import json
import multiprocessing
import os
import subprocess
import sys
import time
import traceback
from concurrent.futures import ProcessPoolExecutor, FIRST_COMPLETED, wait

from sim import core
from sim.core import HarnessError, KnownFindings, Minimiser, Stats, Violation, canon, execute_case

ROOT = os.path.dirname(os.path.dirname(os.path.abspath(__file__)))
CLAIMED = ["C08", "C09", "C10", "C11"]
MAX_REPORTED_CLASSES = 4
STATE_CAP = 4_000_000  # distinct-hash sets are exact up to this size, then lower bounds

_SIM = None
_KNOWN = None
_REPO_URAL = None


class SimAdapter(object):
    """What the minimiser needs: execute with the known-findings filter bound."""

    def __init__(self, module, known):
        self.module = module
        self.known = known

    def execute(self, case, stats):
        self.module.execute(case, stats, self.known)

    def shrink_event(self, config, ev):
        return self.module.shrink_event(config, ev)

    def shrink_config(self, case):
        return self.module.shrink_config(case)


classify_exception = core.classify_exception
run_one = core.run_one


def run_chunk(args):
    prop, seed, tier, start, end, chunk_timeout, double = args[:7]
    if len(args) > 7 and args[7]:
        return run_chunk_isolated(args)
    faulthandler.dump_traceback_later(chunk_timeout, exit=True)
    try:
        adapter = SimAdapter(_SIM, _KNOWN)
        out = {
            "start": start,
            "runs": 0,
            "steps": 0,
            "checks": 0,
            "faults": {},
            "probes": {},
            "known": {},
            "states": set(),
            "nontrivial": set(),
            "transitions": set(),
            "histories": set(),
            "violations": [],
            "samples": [],
            "events": 0,
            "fault_runs": 0,
        }
        digest = hashlib.sha256()
        for run in range(start, end):
            case = _SIM.generate(seed, run, tier)
            stats = Stats()
            v = run_one(adapter, case, stats)
            if double:
                # same explicit case again in this (now warmed-up) process: the
                # event log and the verdict must not depend on what ran before
                again = _SIM.generate(seed, run, tier)
                if canon(again) != canon(case):
                    raise HarnessError("generation of run %d is not a function of (seed, run)" % run)
                stats2 = Stats()
                v2 = run_one(adapter, again, stats2)
                if stats2.digest() != stats.digest() or (v is None) != (v2 is None):
                    raise HarnessError("run %d diverged when executed twice in one process" % run)
            out["runs"] += 1
            out["steps"] += stats.steps
            out["checks"] += stats.checks
            out["events"] += len(case["events"])
            if stats.faults:
                out["fault_runs"] += 1
            core.merge_counts(out["faults"], stats.faults)
            core.merge_counts(out["probes"], stats.probes)
            core.merge_counts(out["known"], stats.known)
            out["states"] |= stats.states
            out["nontrivial"] |= stats.nontrivial
            out["transitions"] |= stats.transitions
            out["histories"].add(core.h64(canon(case)))
            digest.update(("%d:%s\n" % (run, stats.digest())).encode())
            if v is not None and len(out["violations"]) < 3:
                out["violations"].append((run, case, v.record(prop), v.klass()))
            if run == start and start < 3 * (end - start):
                out["samples"].append({"run": run, "config": case["config"], "events": case["events"][:12], "n_events": len(case["events"])})
        out["digest"] = digest.hexdigest()
        return out
    finally:
        faulthandler.cancel_dump_traceback_later()


def run_regressions(args):
    prop, paths = args
    out = []
    adapter = SimAdapter(_SIM, _KNOWN)
    for path in paths:
        with open(path) as f:
            doc = json.load(f)
        case = {"config": doc["config"], "events": doc["events"]}
        v = run_one(adapter, case, Stats(collect=False))
        out.append((os.path.basename(path), None if v is None else (-1, case, v.record(prop), v.klass())))
    return out


def run_chunk_isolated(args):
    """Every run in its own forked child of this (never-executing, hence clean)
    worker: nothing a run leaves behind in process-global state of the system
    under test can reach the next run. Only violations are collected."""
    import pickle

    prop, seed, tier, start, end, chunk_timeout = args[:6]
    faulthandler.dump_traceback_later(chunk_timeout, exit=True)
    found = []
    try:
        for run in range(start, end):
            rfd, wfd = os.pipe()
            pid = os.fork()
            if pid == 0:
                code = 0
                try:
                    os.close(rfd)
                    adapter = SimAdapter(_SIM, _KNOWN)
                    case = _SIM.generate(seed, run, tier)
                    v = run_one(adapter, case, Stats(collect=False))
                    payload = None if v is None else (run, case, v.record(prop), v.klass())
                    with os.fdopen(wfd, "wb") as w:
                        pickle.dump(payload, w)
                except BaseException:
                    code = 1
                finally:
                    os._exit(code)
            os.close(wfd)
            with os.fdopen(rfd, "rb") as rd:
                data = rd.read()
            os.waitpid(pid, 0)
            if data:
                payload = pickle.loads(data)
                if payload is not None:
                    found.append(payload)
                    if len(found) >= 5:
                        break
        return {"start": start, "violations": found, "isolated": True}
    finally:
        faulthandler.cancel_dump_traceback_later()


# -----------------------------------------------------------------------------
def setup_import_path(prop, repo):
    """Import ural from the *current working tree* of the repository."""
    global _REPO_URAL
    os.environ["PYTHONDONTWRITEBYTECODE"] = "1"
    sys.dont_write_bytecode = True
    sim = importlib.import_module("sim." + prop.lower())
    scratch = None
    if hasattr(sim, "prepare_import"):
        scratch = sim.prepare_import(repo)
        base = scratch
    else:
        base = repo
    sys.path.insert(0, base)
    import ural  # noqa

    got = os.path.dirname(os.path.abspath(ural.__file__))
    want = os.path.join(os.path.abspath(base), "ural")
    if os.path.realpath(got) != os.path.realpath(want):
        raise HarnessError("ural imported from %s, expected %s" % (got, want))
    _REPO_URAL = os.path.realpath(want)
    core.REPO_URAL = _REPO_URAL
    return sim, scratch


def load_known(prop, sim):
    return KnownFindings(os.path.join(ROOT, "known_findings.json"), prop, getattr(sim, "MATCHERS", {}))


def git_head(path):
    try:
        return subprocess.check_output(["git", "-C", path, "rev-parse", "--short", "HEAD"], text=True, stderr=subprocess.DEVNULL).strip()
    except Exception:
        return "unknown"


def write_json(path, obj):
    tmp = path + ".tmp"
    with open(tmp, "w") as f:
        json.dump(obj, f, indent=1, sort_keys=True, ensure_ascii=False)
        f.write("\n")
    os.replace(tmp, path)


# -----------------------------------------------------------------------------
def do_replay(prop, sim, known, path, expect_exact):
    with open(path) as f:
        doc = json.load(f)
    if doc.get("property") != prop:
        raise HarnessError("replay file is for %r" % (doc.get("property"),))
    adapter = SimAdapter(sim, known)
    stats = Stats()
    case = {"config": doc["config"], "events": doc["events"]}
    v = run_one(adapter, case, stats)
    print("replay: %d events, event-log sha256 %s" % (len(case["events"]), stats.digest()))
    for fid, n in sorted(stats.known.items()):
        print("KNOWN-FINDING: property=%s %s [%s, %d comparisons]" % (prop, known.what(fid), fid, n))
    if v is None:
        print("REPLAY-CLEAN property=%s replay=%s (no violation on this tree)" % (prop, path))
        return 3 if expect_exact else 0
    rec = v.record(prop)
    exact = rec == doc.get("violation") and stats.digest() == doc.get("log_digest")
    print(json.dumps(rec, indent=1, sort_keys=True, ensure_ascii=False))
    if expect_exact and not exact:
        print("REPLAY-DIVERGED property=%s replay=%s" % (prop, path))
        return 3
    print("replay reproduces the recorded violation exactly: %s" % ("yes" if exact else "no (different record)"))
    print("VIOLATION property=%s replay=%s" % (prop, path))
    return 1


# -----------------------------------------------------------------------------
def do_make_replay(prop, sim, known, args):
    """Internal: execute one raw case in this fresh process; if it fails, minimise
    it (unless told not to) and write the replay document. Exit 0 = written,
    4 = the case does not fail on its own."""
    with open(args.make_replay) as f:
        raw = json.load(f)
    adapter = SimAdapter(sim, known)
    case = {"config": raw["config"], "events": raw["events"]}
    n0 = len(case["events"])
    small = case
    if not args.no_minimise:
        # the first execution happens in a forked child as well: this process stays
        # pristine until the final execution below
        probe = Minimiser(adapter, case, Violation("?", "?", "", ""), max_seconds=args.minimise_s)
        klass = probe.klass_of(case)
        if klass is None:
            return 4
        probe.klass = klass
        small = probe.run()
    stats = Stats(collect=False)
    v2 = run_one(adapter, small, stats)
    if v2 is None:
        return 4
    doc = {
        "property": prop,
        "seed": raw.get("seed"),
        "run": raw.get("run"),
        "tier": raw.get("tier"),
        "config": small["config"],
        "events": small["events"],
        "violation": v2.record(prop),
        "log_digest": stats.digest(),
        "minimised_from_events": n0,
        "repo_head": raw.get("repo_head"),
    }
    write_json(args.out, doc)
    return 0


def report_violations(prop, seed, tier, args, violations):
    """Reproduce + minimise each candidate in a fresh process; returns
    ([(replay path, document)], number of candidates that did not fail on their own)."""
    reported = []
    irreproducible = 0
    if True:
        violations.sort(key=lambda x: x[0])
        by_class = {}
        for run, case, rec, klass in violations:
            by_class.setdefault(tuple(klass), []).append((run, case, rec))
        os.makedirs(os.path.join(ROOT, "replays"), exist_ok=True)
        env = dict(os.environ)
        env["VERIF_REPO"] = args.repo
        me = [sys.executable, "-B", os.path.join(ROOT, "run_check.py"), prop]
        seen_records = set()
        for klass in sorted(by_class, key=lambda k: by_class[k][0][0])[:MAX_REPORTED_CLASSES]:
            done = False
            for run, case, rec in by_class[klass][:6]:
                tag = hashlib.sha256(canon(list(klass)).encode()).hexdigest()[:6]
                path = os.path.join(ROOT, "replays", "%s-%d-%d-%s.json" % (prop, seed, run, tag))
                raw = path + ".case"
                write_json(raw, {"property": prop, "seed": seed, "run": run, "tier": tier, "config": case["config"], "events": case["events"], "repo_head": git_head(args.repo)})
                attempts = [[]] if args.no_minimise else [["--minimise-s", str(args.minimise_s)], ["--no-minimise"]]
                if args.no_minimise:
                    attempts = [["--no-minimise"]]
                for extra in attempts:
                    rc = subprocess.call(me + ["--make-replay", raw, "--out", path] + extra, env=env, stdout=subprocess.DEVNULL)
                    if rc != 0:
                        break  # does not fail on its own in a fresh process
                    rc2 = subprocess.call(me + ["--replay", path, "--expect-exact"], env=env, stdout=subprocess.DEVNULL)
                    if rc2 == 1:
                        done = True
                        break
                os.remove(raw)
                if done:
                    with open(path) as f:
                        doc = json.load(f)
                    key = canon(doc["violation"])
                    if key not in seen_records:
                        seen_records.add(key)
                        reported.append((path, doc))
                    break
                irreproducible += 1
                if os.path.exists(path):
                    os.remove(path)
        return reported, irreproducible
    return reported, irreproducible


def do_check(prop, sim, known, args):
    global _SIM, _KNOWN
    _SIM, _KNOWN = sim, known
    t0 = time.monotonic()
    tier = args.tier
    seed = args.seed
    plan = sim.TIERS[tier]
    total_runs = args.runs if args.runs is not None else plan["runs"]
    chunk = plan.get("chunk", 100)
    budget = args.budget if args.budget is not None else plan["budget_s"]
    workers = args.workers
    chunk_timeout = max(120, int(budget))
    print("VERIF_SEED=%d property=%s tier=%s runs=%d workers=%d budget_s=%d repo=%s" % (seed, prop, tier, total_runs, workers, budget, args.repo))
    sys.stdout.flush()

    pre = {}
    if hasattr(sim, "preflight"):
        # deterministic, un-sharded part of the check (e.g. the boot sweep)
        pre = sim.preflight(seed, tier, known)
    # regression: replay files of repaired defects must stay clean. Executed in a
    # forked child: this parent process never executes a case itself, so that
    # every worker forked from it starts from the pristine post-import state
    regressions = []
    fdir = os.path.join(ROOT, "findings")
    if os.path.isdir(fdir):
        names = [n for n in sorted(os.listdir(fdir)) if n.startswith(prop + "-") and n.endswith(".json")]
        ctx0 = multiprocessing.get_context("fork")
        with ProcessPoolExecutor(max_workers=1, mp_context=ctx0) as pool0:
            for name, payload in pool0.submit(run_regressions, (prop, [os.path.join(fdir, n) for n in names])).result():
                if payload is not None:
                    regressions.append(payload)
                    print("regression: %s fails again" % name)

    chunks = [(prop, seed, tier, s, min(s + chunk, total_runs), chunk_timeout, args.double) for s in range(0, total_runs, chunk)]
    agg = {
        "runs": 0, "steps": 0, "checks": 0, "events": 0, "fault_runs": 0,
        "faults": {}, "probes": {}, "known": {},
        "states": set(), "nontrivial": set(), "transitions": set(), "histories": set(),
    }
    capped = {"states": False, "nontrivial": False, "transitions": False, "histories": False}
    early = regressions + list(pre.get("violations", []))
    violations = []
    samples = []
    digests = {}
    truncated = False
    ctx = multiprocessing.get_context("fork")
    pending = set()
    next_chunk = 0
    hard_deadline = t0 + budget * 4 + 120
    with ProcessPoolExecutor(max_workers=workers, mp_context=ctx) as pool:
        try:
            while next_chunk < len(chunks) or pending:
                while next_chunk < len(chunks) and len(pending) < workers * 2:
                    if violations or time.monotonic() - t0 > budget:
                        truncated = next_chunk < len(chunks)
                        next_chunk = len(chunks)
                        break
                    pending.add(pool.submit(run_chunk, chunks[next_chunk]))
                    next_chunk += 1
                if not pending:
                    break
                done, pending = wait(pending, timeout=max(1.0, hard_deadline - time.monotonic()), return_when=FIRST_COMPLETED)
                if not done:
                    raise HarnessError("hard timeout: workers made no progress")
                for fut in done:
                    out = fut.result()
                    for k in ("runs", "steps", "checks", "events", "fault_runs"):
                        agg[k] += out[k]
                    for k in ("faults", "probes", "known"):
                        core.merge_counts(agg[k], out[k])
                    for k in ("states", "nontrivial", "transitions", "histories"):
                        if len(agg[k]) < STATE_CAP:
                            agg[k] |= out[k]
                        else:
                            capped[k] = True
                    digests[out["start"]] = out["digest"]
                    samples.extend(out["samples"])
                    violations.extend(out["violations"])
        except BaseException:
            for fut in pending:
                fut.cancel()
            raise
    core.merge_counts(agg["faults"], pre.get("faults", {}))
    core.merge_counts(agg["probes"], pre.get("probes", {}))
    core.merge_counts(agg["known"], pre.get("known", {}))
    agg["checks"] += pre.get("checks", 0)

    overall = hashlib.sha256()
    for start in sorted(digests):
        overall.update(("%d:%s\n" % (start, digests[start])).encode())
    if pre.get("digest"):
        overall.update(("pre:%s\n" % pre["digest"]).encode())
    log_digest = overall.hexdigest()
    sim_wall = time.monotonic() - t0

    # ---- violations: reproduce + minimise in a FRESH process, verify replay ----
    # The system under test may keep process-global state (a mutant sharing a
    # dict between instances, a module-level cache): a violation seen in a
    # worker that has executed thousands of runs need not reproduce from its
    # case alone. Every candidate is therefore re-executed and minimised in a
    # fresh interpreter, and the result is replayed in yet another one; only a
    # case that fails there, on its own, is reported as a VIOLATION.
    violations = early + violations
    reported, irreproducible = [], 0
    isolated_pass = False
    if violations:
        reported, irreproducible = report_violations(prop, seed, tier, args, violations)
        if not reported:
            # failures exist but none stands on its own: state is carried from run
            # to run inside the system under test. Second pass: the same runs, each
            # in its own forked child of a clean process.
            isolated_pass = True
            print("note: %d failing run(s) did not fail on their own in a fresh process; re-running in isolation (one forked child per run)" % irreproducible)
            sys.stdout.flush()
            limit = min(total_runs, 8000)
            iso_chunks = [(prop, seed, tier, s, min(s + 25, limit), chunk_timeout, False, True) for s in range(0, limit, 25)]
            iso = []
            with ProcessPoolExecutor(max_workers=workers, mp_context=ctx) as pool:
                for out in pool.map(run_chunk, iso_chunks):
                    iso.extend(out["violations"])
            if iso:
                reported, more = report_violations(prop, seed, tier, args, iso)
                irreproducible += more
        if not reported:
            raise HarnessError(
                "%d run(s) failed inside the worker processes but none fails on its own in a fresh process, "
                "even when every run is isolated in a forked child" % irreproducible
            )

    # ---- evidence --------------------------------------------------------------
    wall = time.monotonic() - t0
    zero_probes = [p for p in getattr(sim, "PROBES", []) if not agg["probes"].get(p)]
    coverage = {
        "evaluations": agg["runs"] + pre.get("evaluations", 0),
        "distinct_nontrivial": len(agg["nontrivial"]) + pre.get("distinct_nontrivial", 0),
        "rule": sim.RULE,
        "samples": (samples[:3] + pre.get("samples", [])) or [{"note": "no run completed"}],
        "states": len(agg["states"]),
        "transitions": len(agg["transitions"]),
        "exhaustive": False,
        "simulated_runs": agg["runs"],
        "planned_runs": total_runs,
        "budget_truncated": truncated,
        "seeds": {"VERIF_SEED": seed, "run_indices": [0, agg["runs"]], "derivation": "sha256('%s|seed|run|stream')" % prop},
        "runs_per_hour": int(agg["runs"] / sim_wall * 3600) if sim_wall > 0 else 0,
        "simulated_time_steps": agg["steps"],
        "simulated_time_unit": "logical events (the code reads no clock)",
        "events_generated": agg["events"],
        "comparisons": agg["checks"],
        "fault_kinds_fired": dict(sorted(agg["faults"].items())),
        "runs_with_faults": agg["fault_runs"],
        "fault_kinds_without_seam": getattr(sim, "NO_SEAM", "message loss, partitions, clock skew, allocation failure: no seam in this code"),
        "distinct_histories": len(agg["histories"]),
        "distinct_model_states": len(agg["states"]),
        "distinct_state_op_transitions": len(agg["transitions"]),
        "distinct_counts_are_lower_bounds": any(capped.values()),
        "probes": dict(sorted(agg["probes"].items())),
        "probes_stuck_at_zero": zero_probes,
        "known_finding_hits": dict(sorted(agg["known"].items())),
        "components": sim.COMPONENTS,
        "event_log_sha256": log_digest,
        "workers": workers,
        "repo_head": git_head(args.repo),
        "regression_replays_run": len([n for n in (os.listdir(fdir) if os.path.isdir(fdir) else []) if n.startswith(prop + "-")]),
        "failed_runs_not_reproducible_in_a_fresh_process": irreproducible,
        "isolated_second_pass": isolated_pass,
        "violations": [{"replay": p, "violation": d["violation"], "events": len(d["events"]), "minimised_from_events": d["minimised_from_events"]} for p, d in reported],
    }
    coverage.update(pre.get("coverage", {}))
    evidence = {
        "property_id": prop,
        "tier": tier,
        "seed": seed,
        "level": "exploration",
        "coverage": coverage,
        "assumptions": sim.ASSUMPTIONS,
        "wall_s": round(wall, 2),
        "violations": len(reported),
    }
    if args.evidence_dir != "none":
        evdir = args.evidence_dir or os.path.join(ROOT, "evidence")
        os.makedirs(evdir, exist_ok=True)
        write_json(os.path.join(evdir, "%s.json" % prop), evidence)

    print("runs=%d steps=%d comparisons=%d states=%d transitions=%d histories=%d runs/h=%d wall=%.1fs%s" % (
        agg["runs"], agg["steps"], agg["checks"], len(agg["states"]), len(agg["transitions"]), len(agg["histories"]),
        coverage["runs_per_hour"], wall, " (budget-truncated)" if truncated else ""))
    print("faults fired: %s" % (json.dumps(coverage["fault_kinds_fired"]),))
    if zero_probes:
        print("WARNING probes stuck at zero: %s" % ", ".join(zero_probes))
    for name, n in sorted(agg["probes"].items()):
        if name.startswith("NOTE_"):
            print("NOTE (outside the property, not a violation): %s x%d" % (name[5:], n))
    print("DIGEST %s" % log_digest)
    for fid, n in sorted(agg["known"].items()):
        print("KNOWN-FINDING: property=%s %s [%s, %d comparisons]" % (prop, known.what(fid), fid, n))
    for path, doc in reported:
        v = doc["violation"]
        print("violation: invariant=%s op=%s got=%s expected=%s (run %d, %d events, minimised from %d)" % (
            v["invariant"], v["op"], v["got"], v["expected"], doc["run"], len(doc["events"]), doc["minimised_from_events"]))
        print("VIOLATION property=%s replay=%s" % (prop, path))
    sys.stdout.flush()
    return 1 if reported else 0


# -----------------------------------------------------------------------------
def do_setup():
    """MANIFEST.setup_cmd: nothing to build; prove the harness imports and that
    ural comes from /repo's working tree, with a few runs per claimed property."""
    rc = 0
    for prop in CLAIMED:
        try:
            importlib.import_module("sim." + prop.lower())
        except ImportError:
            continue
        env = dict(os.environ)
        code = subprocess.call([sys.executable, "-B", os.path.join(ROOT, "run_check.py"), prop, "--runs", "40", "--workers", "2", "--evidence-dir", "none", "--no-minimise"], env=env, stdout=subprocess.DEVNULL)
        print("setup: %s smoke run exit=%d" % (prop, code))
        if code == core.HARNESS_ERROR_EXIT:
            rc = 1
    return rc


def main(argv=None):
    argv = sys.argv[1:] if argv is None else argv
    if argv and argv[0] == "setup":
        return do_setup()
    if argv and argv[0] == "selftest":
        from sim import selftest

        return selftest.main(argv[1:])
    ap = argparse.ArgumentParser(prog="check")
    ap.add_argument("property", choices=CLAIMED)
    ap.add_argument("--tier", default=os.environ.get("VERIF_TIER", "quick"), choices=["quick", "thorough"])
    ap.add_argument("--seed", type=int, default=int(os.environ.get("VERIF_SEED", "0")))
    ap.add_argument("--runs", type=int, default=None)
    ap.add_argument("--workers", type=int, default=int(os.environ.get("VERIF_WORKERS", str(min(16, os.cpu_count() or 1)))))
    ap.add_argument("--budget", type=float, default=float(os.environ["VERIF_BUDGET_S"]) if os.environ.get("VERIF_BUDGET_S") else None)
    ap.add_argument("--repo", default=os.environ.get("VERIF_REPO", "/repo"))
    ap.add_argument("--replay", default=None)
    ap.add_argument("--make-replay", default=None, help=argparse.SUPPRESS)
    ap.add_argument("--out", default=None, help=argparse.SUPPRESS)
    ap.add_argument("--expect-exact", action="store_true")
    ap.add_argument("--evidence-dir", default=None)
    ap.add_argument("--no-minimise", action="store_true")
    ap.add_argument("--double", action="store_true", help="execute every run twice in-process and compare event logs")
    ap.add_argument("--minimise-s", type=float, default=60.0)
    args = ap.parse_args(argv)
    args.repo = os.path.abspath(args.repo)
    prop = args.property
    scratch = None
    rc = core.HARNESS_ERROR_EXIT
    try:
        sim, scratch = setup_import_path(prop, args.repo)
        known = load_known(prop, sim)
        if args.make_replay:
            rc = do_make_replay(prop, sim, known, args)
        elif args.replay:
            rc = do_replay(prop, sim, known, args.replay, args.expect_exact)
        else:
            rc = do_check(prop, sim, known, args)
    except HarnessError as exc:
        print("HARNESS-ERROR %s: %s" % (prop, exc))
        rc = core.HARNESS_ERROR_EXIT
    except Exception:
        traceback.print_exc()
        print("HARNESS-ERROR %s: unexpected exception in the harness" % prop)
        rc = core.HARNESS_ERROR_EXIT
    finally:
        if scratch:
            import shutil

            shutil.rmtree(scratch, ignore_errors=True)
    return rc
