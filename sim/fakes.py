# =============================================================================
# In-process fakes for the only I/O path of the library: ural.tld.upgrade()
# =============================================================================
#
# FakeNet   — the two origin servers (publicsuffix.org, data.iana.org)
# FakeDisk  — the file system holding ural/tld_data.py, with a durable image
#             that survives a crash and per-write fault points
# Node      — the "ural process": install seams, restart from the durable file
#
import errno
import importlib
import sys
import types

from sim.core import HarnessError

try:
    from urllib.error import URLError
except ImportError:  # pragma: no cover
    URLError = IOError


class SimCrash(BaseException):
    """The process dies here.  BaseException on purpose: `except Exception` in
    the code under test must not be able to swallow a crash."""


class FakeResponse(object):
    def __init__(self, net, body, reset_on_read, incomplete_at=None):
        self.net = net
        self.body = body
        self.reset_on_read = reset_on_read
        self.incomplete_at = incomplete_at
        self.closed = False

    def read(self, *args):
        if self.incomplete_at is not None:
            # the peer announced more bytes than it delivered before closing
            import http.client

            self.net.fired("net_incomplete_read")
            cut = int(len(self.body) * self.incomplete_at)
            raise http.client.IncompleteRead(self.body[:cut], len(self.body) - cut)
        if self.reset_on_read:
            self.net.fired("net_reset_on_read")
            raise ConnectionResetError(errno.ECONNRESET, "simulated: connection reset by peer")
        return self.body

    def close(self):
        self.closed = True

    def __enter__(self):
        return self

    def __exit__(self, *exc):
        self.close()
        return False


class FakeNet(object):
    PSL = "https://publicsuffix.org/list/public_suffix_list.dat"
    IANA = "https://data.iana.org/TLD/tlds-alpha-by-domain.txt"

    def __init__(self, stats):
        self.stats = stats
        self.bodies = {self.PSL: b"", self.IANA: b""}
        self.previous = dict(self.bodies)
        self.fault = None  # fault of the upgrade in progress
        self.requests = []
        self.served = {}

    def fired(self, kind):
        self.stats.fault(kind)

    def publish(self, url, body):
        self.previous[url] = self.bodies[url]
        self.bodies[url] = body

    def begin_upgrade(self, fault):
        self.fault = fault
        self.requests = []
        self.served = {}

    def plan(self, which):
        """What this origin serves for the upgrade in progress: a function of the
        published bodies and the injected fault only (not of what the code asks
        for). Returns (kind of fault that would fire or None, body or None, reset)."""
        url = self.PSL if which == 0 else self.IANA
        f = self.fault
        body = self.bodies[url]
        if f is None or f.get("which", 0) != which or not f["kind"].startswith("net_"):
            return None, body, False
        kind = f["kind"]
        if kind == "net_refused":
            return kind, None, False
        if kind == "net_reset_on_read":
            return None, body, True
        if kind == "net_truncated":
            cut = int(len(body) * f.get("at", 0.5))
            inside = False
            try:
                body[:cut].decode("utf-8")
                # a decodable cut keeps whole lines only: a partial last line
                # would be a malformed rule, whose meaning neither the algorithm
                # nor the property defines
                cut = body.rfind(b"\n", 0, cut) + 1
            except UnicodeDecodeError:
                inside = True
            return (kind if cut < len(body) else None), body[:cut], inside
        if kind == "net_garbage":
            return kind, b"\xff\xfe\x00<html>\x80\x81 502 Bad Gateway \xc3\x28</html>", False
        if kind == "net_stale":
            return (kind if self.previous[url] != body else None), self.previous[url], False
        return None, body, False

    def would_serve(self, which):
        kind, body, flag = self.plan(which)
        f = self.fault
        if f is not None and f.get("which", 0) == which and f["kind"] in ("net_reset_on_read", "net_incomplete_read"):
            return None
        return body

    def urlopen(self, url, *args, **kwargs):
        if not isinstance(url, str):
            url = url.full_url
        if url not in self.bodies:
            raise URLError("simulated: unknown origin %r" % (url,))
        which = 0 if url == self.PSL else 1
        self.requests.append(which)
        kind, body, flag = self.plan(which)
        f = self.fault
        reset = bool(f is not None and f.get("which", 0) == which and f["kind"] == "net_reset_on_read")
        if f is not None and f.get("which", 0) == which and f["kind"] == "net_incomplete_read":
            return FakeResponse(self, body if body is not None else b"", False, incomplete_at=f.get("at", 0.5))
        if kind == "net_refused":
            self.fired(kind)
            raise URLError("simulated: connection refused")
        if kind is not None:
            self.fired(kind)
        if f is not None and f.get("which", 0) == which and f["kind"] == "net_truncated" and flag:
            self.stats.probe("truncated_inside_utf8_sequence")
        if not reset:
            self.served[which] = body
        return FakeResponse(self, body if body is not None else b"", reset)


class FakeFile(object):
    def __init__(self, disk, path, encoding):
        self.disk = disk
        self.path = path
        self.encoding = encoding or "utf-8"
        self.closed = False

    def write(self, data):
        if self.closed:
            raise ValueError("I/O operation on closed file")
        if isinstance(data, str):
            data = data.encode(self.encoding)
        self.disk.on_write(self.path, data)
        return len(data)

    def writelines(self, lines):
        for line in lines:
            self.write(line)

    def flush(self):
        pass

    def fileno(self):
        raise OSError("simulated file has no descriptor")

    def close(self):
        if self.closed:
            return
        self.closed = True
        self.disk.on_close(self.path)

    def __enter__(self):
        return self

    def __exit__(self, *exc):
        self.close()
        return False


class FakeDisk(object):
    """path -> bytes.  `files` is what a reader sees now; after a crash the
    durable image of a file being rewritten is a prefix of the bytes written
    (the code under test never syncs), optionally with one lost block."""

    def __init__(self, stats):
        self.stats = stats
        self.files = {}
        self.fault = None
        self.writes = 0
        self.opens = 0
        self.written = {}

    def begin_upgrade(self, fault):
        self.fault = fault
        self.writes = 0
        self.opens = 0

    def open(self, path, mode="r", encoding=None, *args, **kwargs):
        import os

        path = os.path.abspath(path)
        if "w" not in mode and "a" not in mode and "+" not in mode:
            if path not in self.files:
                raise FileNotFoundError(errno.ENOENT, "simulated: no such file", path)
            # a reader sees what is on the simulated disk now
            import io

            self.stats.probe("data_file_read_through_the_seam")
            raw = io.BytesIO(self.files[path])
            if "b" in mode:
                return raw
            return io.TextIOWrapper(raw, encoding=encoding or "utf-8")
        self.opens += 1
        f = self.fault
        if f is not None and f["kind"] == "disk_open_error":
            self.stats.fault("disk_open_error")
            raise PermissionError(errno.EACCES, "simulated: permission denied", path)
        if f is not None and f["kind"] == "crash_between":
            self.stats.fault("crash_between")
            raise SimCrash("crash before the data file is opened")
        # O_TRUNC takes effect at once
        self.files[path] = b""
        self.written[path] = b""
        return FakeFile(self, path, encoding)

    def on_write(self, path, data):
        self.writes += 1
        f = self.fault
        if f is not None and f["kind"] == "disk_write_error" and self.writes == f["at"]:
            self.stats.fault("disk_write_error")
            raise OSError(errno.ENOSPC, "simulated: no space left on device")
        if f is not None and f["kind"] == "crash_during_write" and self.writes == f["at"]:
            self.stats.fault("crash_during_write")
            total = self.written[path]
            keep = int(len(total) * f.get("keep", 1.0))
            image = total[:keep]
            lose = f.get("lose_block")
            if lose is not None and keep > 8:
                start = int(keep * lose)
                end = min(keep, start + max(1, keep // 10))
                image = image[:start] + image[end:]
                self.stats.probe("crash_lost_interior_block")
            self.files[path] = image
            raise SimCrash("crash during write %d" % self.writes)
        self.written[path] += data
        self.files[path] = self.written[path]

    def on_close(self, path):
        f = self.fault
        if f is not None and f["kind"] == "disk_close_error":
            # delayed write error reported by close(): the tail never reached the disk
            self.stats.fault("disk_close_error")
            total = self.written.get(path, b"")
            self.files[path] = total[: int(len(total) * f.get("keep", 0.5))]
            raise OSError(errno.EIO, "simulated: I/O error on close")


class CodecsShim(object):
    """Stands in for the `codecs` module inside ural.tld."""

    def __init__(self, disk):
        self._disk = disk

    def open(self, filename, mode="r", encoding=None, errors="strict", buffering=-1):
        return self._disk.open(filename, mode, encoding)

    def __getattr__(self, name):
        import codecs

        return getattr(codecs, name)


_PRIVATE_DIR = None
_ORIGINAL_FILE = {}


class Node(object):
    """The simulated ural process."""

    def __init__(self, net, disk, stats):
        import os
        import ural.tld as tld

        self.net = net
        self.disk = disk
        self.stats = stats
        self.tld = tld
        # upgrade() writes next to ural.tld's __file__. Each worker process gets a
        # directory of its own inside the scratch copy and ural.tld.__file__ is
        # pointed there, so that an implementation persisting through a path the
        # disk seam does not see (real I/O: io.open, temp file + os.replace) can
        # never race with another worker process on one real file
        global _PRIVATE_DIR
        package_dir = os.path.dirname(os.path.abspath(_ORIGINAL_FILE.setdefault("tld", tld.__file__)))
        if _PRIVATE_DIR is None or not _PRIVATE_DIR.endswith("-%d" % os.getpid()):
            _PRIVATE_DIR = os.path.join(os.path.dirname(package_dir), "proc-%d" % os.getpid())
            os.makedirs(_PRIVATE_DIR, exist_ok=True)
            import shutil

            shutil.copy(os.path.join(package_dir, "tld_data.py"), os.path.join(_PRIVATE_DIR, "tld_data.py"))
        self.private_dir = _PRIVATE_DIR
        self.data_path = os.path.join(self.private_dir, "tld_data.py")

    def install_seams(self):
        import os

        tld = self.tld
        tld.__file__ = os.path.join(self.private_dir, "tld.py")
        tld.urlopen = self.net.urlopen
        tld.codecs = CodecsShim(self.disk)
        # a refactoring to the builtin open() resolves this module global first
        tld.open = self.disk.open

    def boot(self):
        """Start a fresh process from the durable data file.  Raises whatever
        the import raises when the file is torn."""
        source = self.disk.files[self.data_path].decode("utf-8")
        module = types.ModuleType("ural.tld_data")
        module.__file__ = self.data_path
        code = compile(source, self.data_path, "exec")
        exec(code, module.__dict__)
        old = sys.modules.get("ural.tld_data")
        sys.modules["ural.tld_data"] = module
        import ural

        ural.tld_data = module
        try:
            importlib.reload(self.tld)
        except BaseException:
            if old is not None:
                sys.modules["ural.tld_data"] = old
                ural.tld_data = old
            raise
        self.install_seams()
        return module
