# =============================================================================
# C08 — suffix and domain extraction follow the Public Suffix List algorithm
# =============================================================================
#
# System under test (real code): ural.classes.suffix_trie.SuffixTrie, all of
# ural/tld.py (download, suffix_list_iter, get_suffix_lists, parse_tlds,
# refresh, upgrade and the query functions), safe_urlsplit, is_special_host.
# Stubs: urlopen -> FakeNet, codecs.open/open -> FakeDisk, process restart ->
# exec of the durable tld_data.py + importlib.reload(ural.tld).
#
# ural is imported from a scratch copy of /repo/ural (made at check start on
# /dev/shm, removed afterwards): upgrade() rewrites a file next to __file__ and
# a missed seam must never be able to touch /repo.
#
# Run classes:
#   rules — seeded rule-add histories on bare SuffixTrie objects (<= 4/6 rules
#           over a 3-label alphabet; normal / wildcard / exception; the same
#           multiset under several schedules), full host sweep after every add
#   life  — life-cycle histories of the process-global state of ural.tld:
#           origins publish new list versions, the operator upgrades
#           (transient / persisted) and restarts, with network and disk faults
#           and crashes; synthetic data file or the real bundled one
# Preflight (deterministic, once): the whole derived host set of the bundled
#   list through the import-time state.
#
import hashlib
import os
import shutil
import tempfile

from sim import psl
from sim.core import HarnessError, Stats, Violation, canon, geometric, h64, r, stream, weighted_choice
from sim.fakes import FakeDisk, FakeNet, Node, SimCrash

NAME = "C08"

ALPHABETS = [
    ["a", "b", "c"],
    ["com", "co", "uk"],
    ["jp", "kawasaki", "city"],
    ["ck", "www", "x"],
    ["рф", "бел", "xn--p1ai"],
    ["ch", "firenet", "svc"],
    ["x", "a-b", "9lives"],  # one letter, hyphen, leading digit
    ["\U0001F34A", "ws", "a_b"],  # non-BMP label, underscore
    ["com", "ni\u00f1o", "x\u00e9non"],
    ["fr", "rh\u00f4ne-alpes", "xn--rhne-alpes-sbb"],  # an A-label with a hyphen inside its ASCII part  # A-labels whose payload starts with a letter of the ACE prefix (xn--nio-8ma, xn--xnon-bpa)
    ["de", "stra\u00dfe", "strasse"],  # a letter whose case mapping does not round-trip (sharp s) next to its folded twin
]
FOREIGN = "zz"
FORMS = ["bare", "http", "schemeless", "upper", "dot", "split", "auth", "httpdot", "auth2", "dotport", "hostq", "hostfrag", "bareport", "wss", "baredslash", "bareq", "barefrag", "bareqdots", "auth3", "bareqsurl"]
NET_FAULTS = ["net_refused", "net_reset_on_read", "net_truncated", "net_garbage", "net_stale", "net_incomplete_read"]
DISK_FAULTS = ["disk_open_error", "disk_write_error", "disk_close_error", "crash_during_write", "crash_between"]
FAULT_KINDS = NET_FAULTS + DISK_FAULTS

COMPONENTS = {
    "real": [
        "ural.classes.suffix_trie.SuffixTrie",
        "ural.tld (download, suffix_list_iter, get_suffix_lists, parse_tlds, refresh, upgrade, split_suffix, get_domain_name, has_valid_suffix, has_valid_tld, is_valid_tld)",
        "ural.utils.safe_urlsplit / attempt_to_decode_idna, ural.has_special_host.is_special_host",
        "ural/tld_data.py (the real bundled file, in the 'bundled' life-cycle variant and in the preflight sweep)",
    ],
    "stub": [
        "urlopen -> FakeNet (two origin servers with versioned bodies)",
        "codecs.open / open inside ural.tld -> FakeDisk (durable image, per-write fault points)",
        "process restart -> exec of the durable tld_data.py into a new module + importlib.reload(ural.tld)",
    ],
}


# -----------------------------------------------------------------------------
def prepare_import(repo):
    base = "/dev/shm" if os.path.isdir("/dev/shm") and os.access("/dev/shm", os.W_OK) else None
    scratch = tempfile.mkdtemp(prefix="ural-verif-c08-", dir=base)
    shutil.copytree(os.path.join(repo, "ural"), os.path.join(scratch, "ural"), ignore=shutil.ignore_patterns("__pycache__", "*.pyc"))
    # safety net: nothing may reach a real network
    import socket

    def no_network(self, *a, **k):
        raise OSError("simulation: real network access attempted")

    socket.socket.connect = no_network
    return scratch


_REAL = {}


def real_data():
    """The real bundled lists, read from the scratch copy's file (never from
    sys.modules, which life-cycle runs replace)."""
    if not _REAL:
        import ural

        path = os.path.join(os.path.dirname(os.path.abspath(ural.__file__)), "tld_data.py")
        with open(path, "rb") as f:
            content = f.read()
        ns = {}
        exec(compile(content.decode("utf-8"), path, "exec"), ns)
        _REAL["content"] = content
        _REAL["public"] = list(ns["PUBLIC_SUFFIXES"])
        _REAL["private"] = list(ns["PRIVATE_SUFFIXES"])
        _REAL["tlds"] = list(ns["TLDS"])
    return _REAL


# -----------------------------------------------------------------------------
# Hosts, spellings
# -----------------------------------------------------------------------------
def all_hosts(alphabet, max_depth):
    hosts = []
    layer = [()]
    for _ in range(max_depth):
        layer = [(t,) + h for h in layer for t in alphabet]
        hosts.extend(layer)
    return hosts


def universe_for(alphabet, depth=4):
    base = all_hosts(alphabet, depth)
    wider = [h for h in all_hosts(list(alphabet) + [FOREIGN], depth - 1) if FOREIGN in h]
    return base + wider


URL_CACHE = {}


def render(labels, form):
    key = (labels, form)
    u = URL_CACHE.get(key)
    if u is not None:
        return u
    host = ".".join(labels)
    if form in ("upper", "httpdot", "dotport") and host.upper().lower() != host:
        # upper-casing is not reversible for every letter (sharp s, final sigma):
        # such hosts are only spelled as they are
        form = {"upper": "bare", "httpdot": "dot", "dotport": "dot"}[form]
    if form == "bare":
        u = host
    elif form == "http":
        u = "http://%s:8080/path?q=1" % host
    elif form == "schemeless":
        u = "//%s/x" % host
    elif form == "upper":
        u = host.upper()
    elif form == "dot":
        u = host + "."
    elif form == "httpdot":
        u = "https://%s./index.html" % host.title()
    elif form == "auth":
        u = "ftp://user:pw@%s/" % host
    elif form == "auth2":
        u = "http://first.last:p-w%%40d~@%s:8080/x?y#z" % host
    elif form == "bareqsurl":
        u = "%s/redirect?to=http://other.org/" % host
    elif form == "bareq":
        u = "%s?x=1" % host
    elif form == "barefrag":
        u = "%s#section" % host
    elif form == "bareqdots":
        u = "%s?ref=a.b.com" % host
    elif form == "auth3":
        u = "http://us%%2Feast:p%%3Fw%%23@%s/x" % host
    elif form == "baredslash":
        # (a single all-letter label followed by '//' reads as a protocol to the
        # library's own PROTOCOL_RE: not a host spelling)
        u = "%s//a.html" % host if "." in host else host
    elif form == "wss":
        u = "wss://%s/socket" % host
    elif form == "hostq":
        u = "https://%s?x=1" % host
    elif form == "hostfrag":
        u = "http://%s#f" % host
    elif form == "bareport":
        u = "%s:8080" % host
    elif form == "dotport":
        u = "https://%s.:8443/" % host.upper()
    elif form == "split":
        from ural.utils import urlsplit

        u = urlsplit("http://%s/p#f" % host)
    else:
        raise HarnessError("unknown form %r" % (form,))
    if len(URL_CACHE) > 300000:
        URL_CACHE.clear()
    URL_CACHE[key] = u
    return u


class BareApi(object):
    """Query surface of one SuffixTrie object."""

    def __init__(self, trie):
        self.split = trie.split
        self.domain = trie.extract_domain_name
        self.valid = trie.has_valid_domain_name
        self.suffix = trie.extract_suffix
        self.tld = None


class TldApi(object):
    """Query surface of the ural.tld module (process-global state)."""

    def __init__(self, tld):
        self.split = tld.split_suffix
        self.domain = tld.get_domain_name
        self.valid = tld.has_valid_suffix
        self.suffix = None
        self.tld = tld


def discrepancy(api, rules, labels, form):
    """First disagreement between the API and the reference on one host."""
    if (rules.exc or rules.alt is not None) and rules.ambiguous(labels):
        return None
    url = render(labels, form)
    exp = rules.split(labels)
    got = api.split(url)
    if got != exp or (got is not None and type(got) is not tuple):
        return {"invariant": "split_suffix", "got": got, "expected": exp, "host": ".".join(labels), "form": form}
    if got is not None:
        d, s = got
        joined = d + "." + s if d else s
        if joined != ".".join(labels):
            return {"invariant": "rejoin", "got": joined, "expected": ".".join(labels), "host": ".".join(labels), "form": form}
    exp_d = rules.domain(labels)
    got_d = api.domain(url)
    if got_d != exp_d:
        return {"invariant": "get_domain_name", "got": got_d, "expected": exp_d, "host": ".".join(labels), "form": form}
    got_v = api.valid(url)
    if got_v is not (exp is not None):
        return {"invariant": "has_valid_suffix", "got": got_v, "expected": exp is not None, "host": ".".join(labels), "form": form}
    if api.suffix is not None:
        got_s = api.suffix(url)
        exp_s = exp[1] if exp is not None else None
        if got_s != exp_s:
            return {"invariant": "extract_suffix", "got": got_s, "expected": exp_s, "host": ".".join(labels), "form": form}
    if api.tld is not None and form not in ("dot", "httpdot", "dotport"):
        tld = api.tld
        last = labels[-1]
        a = tld.has_valid_tld(url)
        b = tld.is_valid_tld(last)
        if a is not b:
            return {"invariant": "has_valid_tld_last_label", "got": a, "expected": b, "host": ".".join(labels), "form": form}
        for variant in (last.upper() if last.upper().lower() == last else last, "." + last, puny_twin(last)):
            c = tld.is_valid_tld(variant)
            if c is not b:
                return {"invariant": "is_valid_tld_spelling", "got": c, "expected": b, "host": variant, "form": "tld"}
    return None


def puny_twin(label):
    """The other spelling (punycode <-> Unicode) of a label, when Python's idna
    codec maps the two onto each other exactly; else the label itself."""
    try:
        if label.startswith("xn--"):
            twin = label.encode("ascii").decode("idna")
            return twin if twin.encode("idna").decode("ascii") == label else label
        if any(ord(ch) > 127 for ch in label):
            twin = label.encode("idna").decode("ascii")
            return twin if twin.encode("ascii").decode("idna") == label else label
    except UnicodeError:
        return label
    return label


def probes_for(stats, rules, labels):
    n = len(labels)
    k = rules.suffix_length(labels)
    if k is None:
        stats.probe("no_rule_matches")
        return
    if k == n:
        stats.probe("bare_suffix_host")
    for j in range(n, 1, -1):
        if labels[n - j :] in rules.exc:
            stats.probe("exception_rule_hit")
            break
    if labels in set(e[1:] for e in rules.exc):
        stats.probe("exception_parent_query")
    if n >= 2 and labels[1:] in rules.wild:
        if any(len(x) > n and x[len(x) - n :] == labels for x in rules.normal) or any(
            len(w) >= n and w[len(w) - n :] == labels for w in rules.wild
        ):
            stats.probe("wildcard_and_explicit_sibling")


# -----------------------------------------------------------------------------
# Generation
# -----------------------------------------------------------------------------
def draw_rule(rng, alphabet, existing, maxlen=3):
    kind = weighted_choice(rng, [("normal", 5), ("wild", 3), ("exc", 2)])
    # bias towards interaction with rules already drawn
    base = None
    if existing and rng.random() < 0.6:
        other = rng.choice(existing).lstrip("!")
        labels = [l for l in other.split(".") if l != "*"]
        if labels:
            base = labels[rng.randrange(len(labels)) :]
    if kind == "normal":
        n = rng.choice([1, 1, 2, 2, 3] + ([4] if maxlen > 3 else []))
        labels = [rng.choice(alphabet) for _ in range(n)]
        if base and rng.random() < 0.7:
            labels = ([rng.choice(alphabet)] if rng.random() < 0.7 else []) + base
        return ".".join(labels[-maxlen:])
    if kind == "wild":
        parent = base if base and rng.random() < 0.7 else [rng.choice(alphabet) for _ in range(rng.choice([1, 1, 2]))]
        return "*." + ".".join(parent[-(maxlen - 1):])
    parent = base if base and rng.random() < 0.8 else [rng.choice(alphabet) for _ in range(rng.choice([1, 1, 2]))]
    return "!" + rng.choice(alphabet) + "." + ".".join(parent[-(maxlen - 1):])


def nested_exception(rule, rules):
    if not rule.startswith("!"):
        return False
    a = rule[1:]
    for other in rules:
        if other.startswith("!") and other != rule:
            b = other[1:]
            if a.endswith("." + b) or b.endswith("." + a):
                return True
    return False


def draw_ruleset(rng, alphabet, n, maxlen=3):
    rules = []
    for _ in range(n):
        rule = draw_rule(rng, alphabet, rules, maxlen)
        # two exception rules matching one host: the algorithm is silent
        if not nested_exception(rule, rules):
            rules.append(rule)
    return rules or [alphabet[0]]


def generate(seed, run, tier):
    crng = stream(NAME, seed, run, "config")
    wrng = stream(NAME, seed, run, "workload")
    srng = stream(NAME, seed, run, "schedule")
    frng = stream(NAME, seed, run, "faults")
    klass = weighted_choice(crng, [("rules", 50), ("life_syn", 48), ("life_bundled", 2 if tier == "quick" else 1)])
    if klass == "rules":
        return gen_rules(crng, wrng, srng, tier)
    if klass == "life_syn":
        return gen_life(crng, wrng, srng, frng, tier, bundled=False)
    return gen_life(crng, wrng, srng, frng, tier, bundled=True)


def gen_rules(crng, wrng, srng, tier):
    alphabet = crng.choice(ALPHABETS) if crng.random() < 0.5 else ALPHABETS[0]
    max_rules = 4 if tier == "quick" else 6
    n = crng.randint(1, max_rules)
    # mostly the property's scope (rules <= 3 labels, hosts <= 4); sometimes one
    # label deeper, as the real list has 4- and 5-label rules
    deep = crng.random() < 0.15
    rules = draw_ruleset(wrng, alphabet, n, 4 if deep else 3)
    if crng.random() < 0.25:
        rules.append(wrng.choice(rules))  # duplicate
    k = crng.choice([1, 2, 3])
    config = {"klass": "rules", "alphabet": alphabet, "tries": k, "host_depth": 5 if deep else 4}
    adds = [{"op": "add", "rule": rule, "private": wrng.random() < 0.3} for rule in rules]
    orders = []
    for t in range(k):
        order = list(range(len(adds)))
        if t:
            how = srng.choice(["shuffle", "reverse", "long_first", "short_first", "exc_first", "exc_last"])
            if how == "shuffle":
                srng.shuffle(order)
            elif how == "reverse":
                order.reverse()
            elif how == "long_first":
                order.sort(key=lambda i: -adds[i]["rule"].count("."))
            elif how == "short_first":
                order.sort(key=lambda i: adds[i]["rule"].count("."))
            elif how == "exc_first":
                order.sort(key=lambda i: not adds[i]["rule"].startswith("!"))
            else:
                order.sort(key=lambda i: adds[i]["rule"].startswith("!"))
        orders.append(order)
    events = []
    cursors = [0] * k
    n_readers = crng.choice([0, 1])
    hosts = universe_for(alphabet, config["host_depth"])
    while any(cursors[t] < len(adds) for t in range(k)):
        t = srng.randrange(k + n_readers)
        if t >= k:
            events.append({"op": "query", "t": srng.randrange(k), "host": list(wrng.choice(hosts)), "form": wrng.choice(FORMS), "c": "R0"})
            continue
        if cursors[t] >= len(adds):
            continue
        ev = dict(adds[orders[t][cursors[t]]])
        cursors[t] += 1
        ev["t"] = t
        ev["c"] = "W%d" % t
        events.append(ev)
    if k > 1:
        events.append({"op": "cross_check", "c": "X"})
    return {"config": config, "events": events}


def mutate_lists(rng, alphabet, public, private):
    public, private = list(public), list(private)
    for _ in range(rng.choice([1, 1, 2, 3])):
        x = rng.random()
        if x < 0.35 and (public or private):
            target = public if (public and (not private or rng.random() < 0.7)) else private
            target.pop(rng.randrange(len(target)))
        elif x < 0.75:
            rule = draw_rule(rng, alphabet, public + private)
            (private if rng.random() < 0.3 else public).append(rule)
        elif public and private:
            # move a rule between the sections
            if rng.random() < 0.5:
                private.append(public.pop(rng.randrange(len(public))))
            else:
                public.append(private.pop(rng.randrange(len(private))))
        else:
            public.append(draw_rule(rng, alphabet, public + private))
    return public, private


def draw_fault(frng, enabled, n_writes):
    kind = frng.choice(enabled)
    f = {"kind": kind}
    if kind.startswith("net_"):
        f["which"] = frng.choice([0, 0, 1])
        if kind in ("net_truncated", "net_incomplete_read"):
            f["at"] = frng.choice([0.0, 0.3, 0.5, 0.8, 0.97, frng.random()])
    elif kind == "disk_close_error":
        f["keep"] = frng.choice([0.0, 0.5, 0.9, frng.random()])
    elif kind in ("disk_write_error", "crash_during_write"):
        f["at"] = frng.randint(1, max(1, n_writes))
        if kind == "crash_during_write":
            f["keep"] = frng.choice([0.0, 1.0, 1.0, frng.random(), frng.random()])
            if frng.random() < 0.25:
                f["lose_block"] = frng.random()
    return f


def gen_life(crng, wrng, srng, frng, tier, bundled):
    enabled = []
    if crng.random() < 0.6:
        enabled = [k for k in FAULT_KINDS if crng.random() < 0.5]
    fault_rate = crng.choice([0.2, 0.35, 0.5]) if enabled else 0.0
    length = geometric(crng, 5, 10 if tier == "quick" else 16, lo=1)
    if bundled:
        data = real_data()
        alphabet = ["com", "newzone", "jp", "kawasaki", "zz"]
        public, private, tlds = list(data["public"]), list(data["private"]), list(data["tlds"])
        config = {"klass": "life", "variant": "bundled", "alphabet": alphabet, "fault_class": bool(enabled)}
        length = min(length, 5)
    else:
        alphabet = crng.choice(ALPHABETS) if crng.random() < 0.5 else ALPHABETS[0]
        rules = draw_ruleset(wrng, alphabet, crng.randint(1, 5))
        public = [x for x in rules if wrng.random() < 0.75]
        private = [x for x in rules if x not in public]
        tlds = [l for l in alphabet if wrng.random() < 0.6]
        config = {
            "klass": "life",
            "variant": "synthetic",
            "alphabet": alphabet,
            "public": public,
            "private": private,
            "tlds": tlds,
            "fault_class": bool(enabled),
        }
    events = []
    touched = []
    interesting = None
    for _ in range(length):
        op = weighted_choice(srng, [("publish", 4), ("upgrade_t", 3), ("upgrade_p", 4), ("restart", 2), ("query", 2)])
        if op == "publish":
            if bundled:
                if interesting is None:
                    interesting = [x for x in public + private if x.startswith(("*", "!")) or x.count(".") >= 2]
                remove = [wrng.choice(interesting) for _ in range(wrng.choice([0, 1, 2]))]
                remove += [wrng.choice(public) for _ in range(wrng.choice([0, 1]))]
                add_pub, add_priv = [], []
                for _ in range(wrng.choice([0, 1, 2])):
                    rule = draw_rule(wrng, alphabet, add_pub + add_priv + remove)
                    (add_priv if wrng.random() < 0.3 else add_pub).append(rule)
                ev = {"op": "publish_delta", "remove": remove, "add_public": add_pub, "add_private": add_priv, "tld_add": ["newzone"] if wrng.random() < 0.3 else [], "c": "ENV"}
                touched.extend(remove + add_pub + add_priv)
                public = [x for x in public if x not in remove] + add_pub
                private = [x for x in private if x not in remove] + add_priv
            else:
                public, private = mutate_lists(wrng, alphabet, public, private)
                if wrng.random() < 0.3:
                    tlds = [l for l in alphabet if wrng.random() < 0.6]
                ev = {"op": "publish", "public": list(public), "private": list(private), "tlds": list(tlds), "c": "ENV"}
            if wrng.random() < 0.35:
                ev["fmt"] = {"crlf": wrng.random() < 0.5, "pad": wrng.random() < 0.4, "nofinal": wrng.random() < 0.4, "puny": wrng.random() < 0.5, "nomarkers": wrng.random() < 0.25, "tail": wrng.random() < 0.3}
            events.append(ev)
        elif op in ("upgrade_t", "upgrade_p"):
            ev = {"op": "upgrade", "transient": op == "upgrade_t", "fault": None, "c": "OP"}
            if enabled and frng.random() < fault_rate:
                n_writes = 6 + len(public) + len(private) + len(tlds)
                f = draw_fault(frng, enabled, n_writes)
                if not (ev["transient"] and not f["kind"].startswith("net_")):
                    ev["fault"] = f
            events.append(ev)
        elif op == "restart":
            events.append({"op": "restart", "c": "OP"})
        else:
            pool = universe_for(alphabet, 3)
            events.append({"op": "query", "host": list(wrng.choice(pool)), "form": wrng.choice(FORMS), "c": "R0"})
    if bundled:
        rs = real_data()["public"] + real_data()["private"]
        sample = [rs[wrng.randrange(len(rs))] for _ in range(60)]
        config["probe_rules"] = sample + sorted(set(touched))
    return {"config": config, "events": events}


# -----------------------------------------------------------------------------
# Derived host set of a rule list (the property's quantifier over the bundled list)
# -----------------------------------------------------------------------------
def derive_hosts(rules, only=None):
    """Label tuples derived from each rule: the rule as a host, with 1-2 extra
    labels, wildcard instantiated (by a fresh label and by every label that
    also starts a longer rule), exception label, every proper suffix."""
    through = {}
    for rule in rules:
        labels = tuple(l for l in rule.lstrip("!").split("."))
        for i in range(1, len(labels)):
            parent = labels[i:]
            child = labels[i - 1]
            if child != "*":
                through.setdefault(parent, set()).add(child)
    out = []
    seen = set()

    def push(h):
        if h and "*" not in h and h not in seen and all(h):
            seen.add(h)
            out.append(h)

    for rule in rules if only is None else only:
        exc = rule.startswith("!")
        labels = tuple(rule.lstrip("!").split("."))
        if labels[0] == "*":
            parent = labels[1:]
            push(parent)
            inst = ["w1"] + sorted(through.get(parent, ()))
            for l in inst:
                push((l,) + parent)
                push(("x", l) + parent)
                push(("y", "x", l) + parent)
        else:
            push(labels)
            push(("x",) + labels)
            push(("y", "x") + labels)
            if exc:
                push(labels[1:])
                # labels that merely resemble the exception label (its fragments,
                # and the label with one more character) are ordinary labels
                e, parent = labels[0], labels[1:]
                for i in range(len(e)):
                    for j in range(i + 1, len(e) + 1):
                        if e[i:j] != e:
                            push((e[i:j],) + parent)
                push((e + "x",) + parent)
                push(("x" + e,) + parent)
        for i in range(1, len(labels)):
            push(labels[i:])
    return out


# -----------------------------------------------------------------------------
# Execution
# -----------------------------------------------------------------------------
class Base(object):
    def __init__(self, config, stats, known):
        self.cfg = config
        self.stats = stats
        self.known = known
        self.sweeps = 0

    def raise_or_known(self, d, op, extra=None):
        finding = self.known.match(NAME, dict(d, op=op, rules=extra))
        if finding is not None:
            self.stats.known_finding(finding)
            return
        detail = {"host": d["host"], "form": d["form"]}
        if extra is not None:
            detail["rules"] = extra
        raise Violation(d["invariant"], op, r(d["got"]), r(d["expected"]), detail)

    def find(self, api, rules, hosts, probes=True):
        """Sweep; returns the first discrepancy not excused by a known finding."""
        self.sweeps += 1
        base = self.sweeps
        n = 0
        stats = self.stats
        for labels in hosts:
            n += 1
            form = FORMS[(n + base) % len(FORMS)]
            stats.checks += 1
            d = discrepancy(api, rules, labels, form)
            if d is not None:
                return d
            if probes and stats.collect:
                probes_for(stats, rules, labels)
        return None


class RulesRun(Base):
    def __init__(self, config, stats, known):
        from ural.classes.suffix_trie import SuffixTrie

        Base.__init__(self, config, stats, known)
        k = config.get("tries", 1)
        self.tries = [SuffixTrie() for _ in range(k)]
        self.added = [[] for _ in range(k)]
        self.hosts = universe_for(config["alphabet"], config.get("host_depth", 4))

    def sweep(self, t, op):
        rules = psl.RuleSet(self.added[t])
        d = self.find(BareApi(self.tries[t]), rules, self.hosts)
        if d is not None:
            self.raise_or_known(d, op, sorted(self.added[t]))
        self.stats.state("rules|" + repr(sorted(set(self.added[t]))), nontrivial=bool(self.added[t]))

    def step(self, ev):
        op = ev["op"]
        stats = self.stats
        t = ev.get("t", 0)
        if t >= len(self.tries):
            return
        if op == "add":
            rule = ev["rule"]
            before = repr(sorted(set(self.added[t]))) if stats.collect else ""
            if rule in self.added[t]:
                stats.probe("duplicate_rule")
            if rule.startswith("!"):
                stats.probe("exception_rule_added")
                parent = rule[1:].split(".", 1)[1]
                if any(x.startswith("!") and x != rule and x[1:].split(".", 1)[1] == parent for x in self.added[t]):
                    stats.probe("two_exceptions_same_parent")
            if rule.startswith("*"):
                stats.probe("wildcard_rule_added")
            self.tries[t].add(rule, private=bool(ev.get("private")))
            self.added[t].append(rule)
            stats.event("%s|add|%d|%s|%s" % (ev.get("c"), t, rule, bool(ev.get("private"))))
            stats.transition(before + "|add|" + rule)
            self.sweep(t, "add")
        elif op == "query":
            rules = psl.RuleSet(self.added[t])
            stats.checks += 1
            d = discrepancy(BareApi(self.tries[t]), rules, tuple(ev["host"]), ev["form"])
            stats.event("%s|query|%d|%s|%s" % (ev.get("c"), t, ".".join(ev["host"]), ev["form"]))
            if d is not None:
                self.raise_or_known(d, op, sorted(self.added[t]))
        elif op == "cross_check":
            # PSL is defined on the set of rules: same multiset, any order
            sets = [sorted(set(a)) for a in self.added]
            if all(s == sets[0] for s in sets):
                stats.probe("schedules_compared", len(sets))
                api0 = BareApi(self.tries[0])
                for i in range(1, len(self.tries)):
                    api = BareApi(self.tries[i])
                    for labels in self.hosts:
                        u = render(labels, "bare")
                        stats.checks += 1
                        if api.split(u) != api0.split(u):
                            raise Violation("order_independence", op, r(api.split(u)), r(api0.split(u)), {"host": ".".join(labels), "rules": sets[0], "trie": i})
            stats.event("X|cross_check|%d" % len(sets))
        else:
            raise HarnessError("unknown event %r" % (ev,))

    def finish(self):
        for t in range(len(self.tries)):
            self.sweep(t, "end")


class LifeRun(Base):
    def __init__(self, config, stats, known):
        Base.__init__(self, config, stats, known)
        self.net = FakeNet(stats)
        self.disk = FakeDisk(stats)
        self.node = Node(self.net, self.disk, stats)
        path = self.node.data_path
        if config["variant"] == "bundled":
            content = real_data()["content"]
            self.hosts = None
        else:
            content = psl.render_data_module(config["public"], config["private"], config["tlds"]).encode("utf-8")
            self.hosts = universe_for(config["alphabet"])
        self.disk.files[path] = content
        self.last_good = content
        self.expected = None  # list of rules in effect
        self.persisted = None
        self.faults_seen = 0
        self.file_may_be_torn = False  # a disk fault or crash hit a persisted upgrade since the last good boot
        self.origin = None
        self.touched = []
        self.probe_rules = list(config.get("probe_rules", []))
        self.boot("boot")
        data = self.node.tld.tld_data
        self.origin = {"public": list(data.PUBLIC_SUFFIXES), "private": list(data.PRIVATE_SUFFIXES), "tlds": list(data.TLDS)}
        self.publish_bodies()

    # -- helpers ------------------------------------------------------------------
    def publish_bodies(self):
        o = self.origin
        fmt = o.get("fmt")
        if fmt:
            for k in sorted(fmt):
                if fmt[k]:
                    self.stats.probe("list_format_" + k)
        self.net.publish(FakeNet.PSL, psl.render_psl_text(o["public"], o["private"], fmt).encode("utf-8"))
        self.net.publish(FakeNet.IANA, psl.render_tld_text(o["tlds"], fmt).encode("utf-8"))

    def sweep_hosts(self, rule_list):
        if self.hosts is not None:
            return self.hosts
        only = [x for x in self.probe_rules + self.touched]
        hosts = derive_hosts(rule_list, only=only)
        for extra in (("zz",), ("a", "zz"), ("newzone",), ("x", "newzone"), ("www", "example", "com")):
            hosts.append(extra)
        return hosts

    def current_lists(self):
        """The rule list the process itself holds as 'the bundled list'."""
        import sys

        data = getattr(self.node.tld, "tld_data", None) or sys.modules["ural.tld_data"]
        return list(data.PUBLIC_SUFFIXES) + list(data.PRIVATE_SUFFIXES)

    def check_against(self, name, rule_list, op):
        """The answers must equal the PSL algorithm run over rule_list."""
        api = TldApi(self.node.tld)
        rules = psl.RuleSet(rule_list)
        d = self.find(api, rules, self.sweep_hosts(rule_list))
        if d is not None:
            d = dict(d, invariant=d["invariant"] + ("" if name == "data" else "_vs_" + name))
            extra = sorted(rule_list) if len(rule_list) <= 12 else None
            self.raise_or_known(d, op, extra)

    def check_current(self, op):
        """O1 — at the end of every operator event the answers agree with the
        algorithm over the list the module holds in tld_data (no mixture of an
        old and a new list, no stale trie)."""
        current = self.current_lists()
        self.check_against("data", current, op)
        self.expected = current

    def boot_and_probe(self):
        """Start the process and make it load its data: an implementation may build
        the suffix state at import or lazily at the first query, so 'the process is
        up' means that the lists are there and that one suffix query, one domain
        query and one TLD query went through."""
        module = self.node.boot()
        list(module.PUBLIC_SUFFIXES), list(module.PRIVATE_SUFFIXES)
        tld = self.node.tld
        # the TLD answers depend on the last label only — not on whether a suffix
        # question happened to be asked before in this process: ask them first,
        # then again after the suffix queries
        labels = [str(t) for t in list(module.TLDS)[:4]] + list(self.cfg.get("alphabet", []))[:4] + ["invalid"]
        early = [(t, tld.is_valid_tld(t), tld.has_valid_tld("http://www.example." + t + "/x")) for t in labels]
        tld.split_suffix("probe.invalid")
        tld.get_domain_name("probe.invalid")
        tld.has_valid_suffix("probe.invalid")
        late = [(t, tld.is_valid_tld(t), tld.has_valid_tld("http://www.example." + t + "/x")) for t in labels]
        self.stats.checks += 1
        if early != late:
            diff = [(a, b) for a, b in zip(early, late) if a != b][:3]
            raise Violation("tld_answer_depends_on_history", "boot", r([d[0] for d in diff]), r([d[1] for d in diff]), {"note": "same label asked before and after an unrelated suffix query"})
        # a process that has just started knows exactly the TLDs of the file it
        # loaded (no upgrade has happened in it yet): membership is absolute here
        spellings, unjudged = psl.tld_spellings(module.TLDS)
        probes = list(labels)
        for t in labels[:6]:
            if t.isascii() and t.isalnum():
                probes.append("xn--" + t + "-")  # an ACE prefix on plain ASCII is not a spelling of t
                probes.append(t.upper())
            tw = puny_twin(t)
            if tw != t:
                probes.append(tw)
        for t in probes:
            if t.lstrip(".").lower() in unjudged:
                continue
            self.stats.checks += 1
            got = tld.is_valid_tld(t)
            exp = psl.tld_listed(spellings, t)
            if got is not exp:
                raise Violation("is_valid_tld_membership", "boot", got, exp, {"label": t, "note": "fresh process: the TLD list is exactly the one of the loaded file"})
        self.stats.probe("tld_membership_checked_at_boot")
        return module

    def tld_answers_before_restart(self):
        """(TLD list held, answers for a few of its entries and for a label that was
        never listed) in the process that is about to be replaced."""
        try:
            tld = self.node.tld
            held = [str(t) for t in list(tld.tld_data.TLDS)]
        except Exception:  # noqa: no process yet, or the list is not a list
            return None
        labels = held[:3] + held[-3:] + ["neverlisted"]
        return sorted(held), [(t, tld.is_valid_tld(t)) for t in labels]

    def boot(self, op):
        stats = self.stats
        before = self.tld_answers_before_restart() if self.expected is not None else None
        try:
            module = self.boot_and_probe()
        except SimCrash:
            raise HarnessError("crash during boot")
        except Exception as exc:  # torn data file: the node is down
            if self.disk.files[self.node.data_path] == self.last_good:
                raise
            if not self.file_may_be_torn:
                # no disk fault, no crash: only upgrade() itself can have damaged the file
                raise Violation("data_file_does_not_boot_without_any_disk_fault", op, "%s: %s" % (type(exc).__name__, str(exc)[:80]), "a data file that imports", {"note": "since the last good boot only network faults (if any) were injected"})
            stats.probe("restart_bootfail")
            stats.event("OP|bootfail|%s" % type(exc).__name__)
            # the operator reinstalls the last data file known to boot
            self.disk.files[self.node.data_path] = self.last_good
            module = self.boot_and_probe()
        stats.probe("restart_ok")
        if before is not None and before[0] == sorted(str(t) for t in module.TLDS):
            # same TLD list before and after the restart: "depends only on the last
            # label" means the same label gets the same answer in both processes
            # (asked only about listed TLDs and a never-listed label: TLD_SET is only
            # ever added to, so a TLD dropped by an earlier upgrade may linger, §6)
            after = [(t, self.node.tld.is_valid_tld(t)) for t, _ in before[1]]
            stats.checks += 1
            if after != before[1]:
                diff = [(a, b) for a, b in zip(before[1], after) if a != b][:3]
                raise Violation("tld_answer_depends_on_history", op, r([d[0] for d in diff]), r([d[1] for d in diff]), {"note": "same TLD list, same label, asked before and after a restart"})
            stats.probe("tld_answers_compared_across_restart")
        self.last_good = self.disk.files[self.node.data_path]
        self.file_may_be_torn = False
        loaded = list(module.PUBLIC_SUFFIXES) + list(module.PRIVATE_SUFFIXES)
        if sorted(self.current_lists()) != sorted(loaded):
            raise HarnessError("restart did not install the durable data module")
        self.check_current(op)
        if self.persisted is not None:
            # not a C08 clause (no listed property promises durable upgrades):
            # reported as a note, never as a violation
            pub, tlds = self.persisted
            if sorted(pub) != sorted(loaded) or not set(puny_twin(t) if t.startswith("xn--") else t for t in tlds) <= set(module.TLDS):
                stats.probe("NOTE_persisted_upgrade_not_reloaded_after_restart")
            else:
                stats.probe("persisted_upgrade_reloaded_after_restart")
            self.persisted = None

    def state(self, op):
        if self.stats.collect:
            exp = self.expected or []
            self.stats.state("life|%s|%d|%d" % (op, h64(repr(sorted(exp))), h64(self.disk.files[self.node.data_path])), nontrivial=True)

    def step(self, ev):
        op = ev["op"]
        stats = self.stats
        if op == "publish":
            self.origin = {"public": list(ev["public"]), "private": list(ev["private"]), "tlds": list(ev["tlds"]), "fmt": ev.get("fmt")}
            self.publish_bodies()
            stats.event("ENV|publish|%d|%d|%d" % (len(ev["public"]), len(ev["private"]), len(ev["tlds"])))
        elif op == "publish_delta":
            o = self.origin
            remove = set(ev.get("remove", ()))
            if remove & set(o["public"]) or remove & set(o["private"]):
                stats.probe("publish_removed_rules")
            o["public"] = [x for x in o["public"] if x not in remove] + list(ev.get("add_public", ()))
            o["private"] = [x for x in o["private"] if x not in remove] + list(ev.get("add_private", ()))
            o["tlds"] = [x for x in o["tlds"] if x not in set(ev.get("tld_remove", ()))] + [x for x in ev.get("tld_add", ()) if x not in o["tlds"]]
            self.touched.extend(sorted(remove) + list(ev.get("add_public", ())) + list(ev.get("add_private", ())))
            if "fmt" in ev:
                o["fmt"] = ev["fmt"]
            self.publish_bodies()
            stats.event("ENV|publish_delta|%s" % canon(ev))
        elif op == "upgrade":
            self.upgrade(ev)
        elif op == "restart":
            stats.event("OP|restart")
            self.boot("restart")
            self.state("restart")
        elif op == "query":
            rules = psl.RuleSet(self.expected)
            stats.checks += 1
            d = discrepancy(TldApi(self.node.tld), rules, tuple(ev["host"]), ev["form"])
            stats.event("%s|query|%s|%s" % (ev.get("c"), ".".join(ev["host"]), ev["form"]))
            if d is not None:
                self.raise_or_known(d, op, sorted(self.expected) if len(self.expected) <= 12 else None)
        else:
            raise HarnessError("unknown event %r" % (ev,))

    def upgrade(self, ev):
        from ural.exceptions import TLDUpgradeError

        stats = self.stats
        fault = ev.get("fault")
        transient = bool(ev.get("transient"))
        if fault is not None:
            self.faults_seen += 1
        self.net.begin_upgrade(fault)
        self.disk.begin_upgrade(fault)
        if fault is not None and not fault["kind"].startswith("net_"):
            self.file_may_be_torn = True
        path = self.node.data_path
        before = self.disk.files[path]
        previous = self.expected
        outcome = "ok"
        try:
            self.node.tld.upgrade(transient=transient)
        except TLDUpgradeError as exc:
            outcome = "failed:" + type(exc.reason).__name__
        except SimCrash:
            outcome = "crash"
        except Exception as exc:  # noqa: however a failure is reported, it is a failed upgrade
            outcome = "failed:" + type(exc).__name__
            stats.probe("upgrade_failure_not_wrapped")
        # the list a correct upgrade gets from the origin during this upgrade: a
        # function of what is published and of the injected fault, not of what
        # the code chose to fetch (a stale body cached by the code is the code's)
        served = None
        body0, body1 = self.net.would_serve(0), self.net.would_serve(1)
        if body0 is not None and body1 is not None:
            try:
                text = body0.decode("utf-8")
                body1.decode("utf-8")
                pub, priv = psl.parse_psl_text(text)
                served = pub + priv
            except UnicodeDecodeError:
                served = None
        # the suffix list alone, when that body arrived whole (an implementation may
        # install it even though the TLD body did not arrive)
        served_rules0 = None
        if body0 is not None:
            try:
                pub0, priv0 = psl.parse_psl_text(body0.decode("utf-8"))
                served_rules0 = pub0 + priv0
            except UnicodeDecodeError:
                served_rules0 = None
        if self.net.requests.count(0) == 0 and outcome == "ok":
            stats.probe("upgrade_ok_without_fetching_the_suffix_list")
        stats.event("OP|upgrade|%s|%s|%s|writes=%d" % (transient, canon(fault), outcome, self.disk.writes))
        if outcome == "crash":
            self.persisted = None
            stats.probe("crash_torn" if self.disk.files[path] != before else "crash_file_intact")
            # volatile state is gone; the process restarts from the durable file
            self.boot("restart_after_crash")
            self.state("crash")
            return outcome
        if outcome == "ok":
            stats.probe("upgrade_ok_transient" if transient else "upgrade_ok_persisted")
            if served is None:
                # the origin could not have served two decodable bodies, yet
                # upgrade() reports success: only O1 can be evaluated
                stats.probe("upgrade_ok_although_origin_failed")
                self.check_current("upgrade")
                # …and whatever upgrade() made of it, no complete pair of bodies ever
                # arrived: the list in effect before the call is still the one in effect
                stats.checks += 1
                if previous is not None and sorted(self.current_lists()) != sorted(previous) and (served_rules0 is None or sorted(self.current_lists()) != sorted(served_rules0)):
                    self.raise_or_known({"invariant": "upgrade_installed_a_list_never_served", "got": "%d rules in effect" % len(self.current_lists()), "expected": "the %d rules in effect before the call" % len(previous), "host": "-", "form": canon(fault)}, "upgrade")
                self.state("upgrade_ok")
                return outcome
            if not transient and self.disk.opens == 0:
                # the code persisted through a path the disk seam does not see:
                # take the real scratch file as the durable state
                stats.probe("seam_miss")
                with open(path, "rb") as f:
                    self.disk.files[path] = f.read()
            if previous is not None and set(previous) - set(served):
                stats.probe("upgrade_removed_rules")
            # O2 — a successful upgrade takes effect: the list the origin served
            self.check_against("served", served, "upgrade")
            if sorted(self.current_lists()) != sorted(served):
                self.check_current("upgrade")
            self.expected = served
            if not transient and fault is not None:
                self.persisted = None
            if not transient and fault is None:
                try:
                    tlds = [t.strip().lower() for t in body1.decode("utf-8").split("\n") if t.strip() and not t.startswith("#")]
                except UnicodeDecodeError:
                    tlds = []
                self.persisted = (served, tlds)
        else:
            stats.probe("upgrade_" + outcome.replace(":", "_"))
            if served is not None and sorted(self.current_lists()) == sorted(served) and sorted(served) != sorted(previous or []):
                stats.probe("failed_upgrade_left_served")
            else:
                stats.probe("failed_upgrade_left_old")
            self.check_current("upgrade_failed")
            # a failed upgrade leaves the list that was in effect, or the served one
            # (C08 is silent on which): never a third list, such as the one of the
            # data file from before an earlier transient upgrade
            stats.checks += 1
            now = sorted(self.current_lists())
            if previous is not None and now != sorted(previous) and (served is None or now != sorted(served)) and (served_rules0 is None or now != sorted(served_rules0)):
                self.raise_or_known({"invariant": "failed_upgrade_left_a_third_list", "got": "%d rules in effect" % len(now), "expected": "the %d rules in effect before the call%s" % (len(previous), "" if served is None else " or the %d served" % len(served)), "host": "-", "form": canon(fault)}, "upgrade_failed")
            if not transient:
                self.persisted = None
        self.state("upgrade_" + outcome.split(":")[0])
        if fault is None and outcome != "ok":
            # outside C08 (which constrains the answers, not upgrade's success)
            stats.probe("NOTE_fault_free_upgrade_failed")
        return outcome

    def finish(self):
        # bounded recovery once faults stop: one fault-free upgrade succeeds and
        # takes effect (O2 is checked inside); reported as a probe / note
        if self.faults_seen:
            outcome = self.upgrade({"op": "upgrade", "transient": True, "fault": None})
            if outcome == "ok":
                self.stats.probe("recovered_after_faults")
        # one more restart: whatever is durable must boot or be recoverable,
        # and the restarted process must agree with the file it loaded
        self.stats.event("OP|final_restart")
        self.boot("final_restart")


class BootQueryRun(Base):
    """Replay form of a preflight discrepancy: the import-time state of the
    real bundled list, one host."""

    def __init__(self, config, stats, known):
        Base.__init__(self, config, stats, known)
        self.life = LifeRun({"klass": "life", "variant": "bundled", "alphabet": ["zz"], "probe_rules": []}, stats, known)

    def step(self, ev):
        data = self.life.node.tld.tld_data
        if ev["op"] == "tld_query":
            spellings, unjudged = psl.tld_spellings(data.TLDS)
            self.stats.checks += 1
            got = self.life.node.tld.is_valid_tld(ev["label"])
            exp = psl.tld_listed(spellings, ev["label"])
            self.stats.event("R|tld_query|%s" % ev["label"])
            if got is not exp and ev["label"].lstrip(".").lower() not in unjudged:
                self.raise_or_known({"invariant": "is_valid_tld_membership", "got": got, "expected": exp, "host": ev["label"], "form": "tld"}, "tld_query")
            return
        rules = psl.RuleSet(list(data.PUBLIC_SUFFIXES) + list(data.PRIVATE_SUFFIXES))
        self.stats.checks += 1
        d = discrepancy(TldApi(self.life.node.tld), rules, tuple(ev["host"]), ev["form"])
        self.stats.event("R|boot_query|%s|%s" % (".".join(ev["host"]), ev["form"]))
        if d is not None:
            self.raise_or_known(d, "boot_query")

    def finish(self):
        pass


def execute(case, stats, known):
    klass = case["config"]["klass"]
    if klass == "rules":
        run = RulesRun(case["config"], stats, known)
    elif klass == "life":
        run = LifeRun(case["config"], stats, known)
    elif klass == "boot_query":
        run = BootQueryRun(case["config"], stats, known)
    else:
        raise HarnessError("unknown run class %r" % (klass,))
    for ev in case["events"]:
        run.step(ev)
    run.finish()


# -----------------------------------------------------------------------------
# Preflight: the property's quantifier over the bundled list, once per check
# -----------------------------------------------------------------------------
def preflight(seed, tier, known):
    import random

    from sim.core import classify_exception

    import ural.tld as tld
    import ural.tld_data as data

    stats = Stats()
    real_data()  # cache the pristine bundled file before any run can rewrite the scratch copy
    rule_list = list(data.PUBLIC_SUFFIXES) + list(data.PRIVATE_SUFFIXES)
    rules = psl.RuleSet(rule_list)
    hosts = derive_hosts(rule_list)
    # random label sequences over the labels of the list
    vocab = sorted(set(l for x in rule_list for l in x.lstrip("!").split(".") if l and l != "*"))
    rng = random.Random(int.from_bytes(hashlib.sha256(("C08|preflight|%d" % seed).encode()).digest()[:8], "big"))
    n_random = 4000 if tier == "quick" else 60000
    for _ in range(n_random):
        hosts.append(tuple(rng.choice(vocab) for _ in range(rng.choice([1, 2, 2, 3, 3, 4]))))
    hosts = [h for h in hosts if all(h) and not (len(h) == 4 and all(l.isdigit() for l in h)) and h != ("localhost",)]
    api = TldApi(tld)
    base = Base({}, stats, known)
    violations = []
    seen_classes = set()
    n = 0
    distinct = set()
    sample = []
    for labels in hosts:
        n += 1
        form = FORMS[n % len(FORMS)]
        stats.checks += 1
        crashed = None
        try:
            d = discrepancy(api, rules, labels, form)
        except Exception as exc:  # noqa: an exception escaping from ural code is a violation, anything else a harness error
            crashed = classify_exception(exc)
            if crashed is None:
                raise
            d = {"invariant": "unexpected_exception", "got": None, "expected": None, "host": ".".join(labels), "form": form}
        distinct.add(labels)
        if n % 9000 == 1 and crashed is None:
            sample.append({"host": ".".join(labels), "form": form, "split_suffix": r(api.split(render(labels, form)))})
        probes_for(stats, rules, labels)
        if d is None:
            continue
        if crashed is not None:
            klass = crashed.klass()
            if klass in seen_classes:
                continue
            seen_classes.add(klass)
            case = {"config": {"klass": "boot_query"}, "events": [{"op": "boot_query", "host": list(labels), "form": form}]}
            crashed.seq = 0
            violations.append((-1 - len(violations), case, crashed.record(NAME), klass))
            continue
        finding = known.match(NAME, dict(d, op="boot_query", rules=None))
        if finding is not None:
            stats.known_finding(finding)
            continue
        klass = (d["invariant"], "boot_query")
        if klass in seen_classes and len(violations) >= 3:
            continue
        seen_classes.add(klass)
        case = {"config": {"klass": "boot_query"}, "events": [{"op": "boot_query", "host": list(labels), "form": form}]}
        v = Violation(d["invariant"], "boot_query", r(d["got"]), r(d["expected"]), {"host": d["host"], "form": d["form"]})
        v.seq = 1
        violations.append((-1 - len(violations), case, v.record(NAME), v.klass()))
    # TLD membership, absolute: this process has just imported the bundled file and
    # no upgrade has happened in it
    spellings, unjudged = psl.tld_spellings(data.TLDS)
    tld_probes = []
    for t in data.TLDS:
        t = str(t)
        tld_probes.append(t)
        tw = puny_twin(t)
        if tw != t:
            tld_probes.extend([tw, tw.upper(), "." + tw])
        elif t.isascii():
            tld_probes.extend([t.upper(), "xn--" + t + "-"])
    tld_probes.extend(vocab)
    tld_probes.extend(["xn--" + l + "-" for l in vocab[::7] if l.isascii() and l.isalnum()])
    n_tld = 0
    for t in tld_probes:
        if t.lstrip(".").lower() in unjudged:
            continue
        n_tld += 1
        stats.checks += 1
        try:
            got = tld.is_valid_tld(t)
        except Exception as exc:  # noqa
            crashed = classify_exception(exc)
            if crashed is None:
                raise
            klass = crashed.klass()
            if klass not in seen_classes:
                seen_classes.add(klass)
                crashed.seq = 0
                violations.append((-1 - len(violations), {"config": {"klass": "boot_query"}, "events": [{"op": "tld_query", "label": t}]}, crashed.record(NAME), klass))
            continue
        exp = psl.tld_listed(spellings, t)
        if got is exp:
            continue
        klass = ("is_valid_tld_membership", "tld_query", exp)
        if klass in seen_classes:
            continue
        seen_classes.add(klass)
        case = {"config": {"klass": "boot_query"}, "events": [{"op": "tld_query", "label": t}]}
        v = Violation("is_valid_tld_membership", "tld_query", r(got), r(exp), {"host": t, "form": "tld"})
        v.seq = 1
        violations.append((-1 - len(violations), case, v.record(NAME), v.klass()))
    # keep one violation per class
    uniq = {}
    for item in violations:
        uniq.setdefault(tuple(item[3]) + (item[2]["got"] == "None",), item)
    digest = hashlib.sha256(("%d|%d" % (len(hosts), len(violations))).encode()).hexdigest()
    return {
        "violations": sorted(uniq.values(), key=lambda x: -x[0]),
        "faults": {},
        "probes": stats.probes,
        "known": stats.known,
        "checks": stats.checks,
        "digest": digest,
        "evaluations": 0,
        "distinct_nontrivial": 0,
        "samples": sample[:3],
        "coverage": {
            "preflight_bundled_rules": len(rule_list),
            "preflight_hosts_swept": len(hosts),
            "preflight_distinct_hosts": len(distinct),
            "preflight_tld_labels_checked": n_tld,
            "preflight_note": "every bundled rule as a host, with 1-2 extra labels, wildcard instantiated by a fresh label and by every label that also starts a longer rule, exception label and parent, every proper suffix, plus seeded random label sequences; plain enumeration of the import-time state's observations, not the simulated part",
        },
    }


# -----------------------------------------------------------------------------
def shrink_event(config, ev):
    out = []
    if ev.get("op") == "add":
        rule = ev["rule"]
        first = config["alphabet"][0]
        labels = rule.lstrip("!*.").split(".")
        if ev.get("private"):
            e = dict(ev)
            e["private"] = False
            out.append(e)
        if len(labels) > 1 and not rule.startswith("!"):
            e = dict(ev)
            e["rule"] = rule.split(".", 1)[1] if not rule.startswith("*") else "*." + ".".join(labels[1:])
            out.append(e)
        for i, l in enumerate(labels):
            if l != first:
                new = labels[:i] + [first] + labels[i + 1 :]
                prefix = "!" if rule.startswith("!") else ("*." if rule.startswith("*.") else "")
                e = dict(ev)
                e["rule"] = prefix + ".".join(new)
                out.append(e)
    if ev.get("t"):
        e = dict(ev)
        e["t"] = 0
        out.append(e)
    if ev.get("op") == "upgrade":
        if ev.get("fault"):
            e = dict(ev)
            e["fault"] = None
            out.append(e)
            f = ev["fault"]
            if f.get("lose_block") is not None:
                e = dict(ev)
                e["fault"] = {k: v for k, v in f.items() if k != "lose_block"}
                out.append(e)
            if f.get("at", 0) and isinstance(f.get("at"), int) and f["at"] > 1:
                e = dict(ev)
                e["fault"] = dict(f, at=f["at"] // 2)
                out.append(e)
        if not ev.get("transient"):
            e = dict(ev)
            e["transient"] = True
            if not (e.get("fault") and not e["fault"]["kind"].startswith("net_")):
                out.append(e)
    if ev.get("op") == "publish":
        for key in ("public", "private", "tlds"):
            for i in range(len(ev[key])):
                e = dict(ev)
                e[key] = ev[key][:i] + ev[key][i + 1 :]
                out.append(e)
    if ev.get("op") == "publish_delta":
        for key in ("remove", "add_public", "add_private", "tld_add"):
            for i in range(len(ev.get(key, ()))):
                e = dict(ev)
                e[key] = ev[key][:i] + ev[key][i + 1 :]
                out.append(e)
    if ev.get("form") not in (None, "bare"):
        e = dict(ev)
        e["form"] = "bare"
        out.append(e)
    return out


def shrink_config(case):
    cfg = case["config"]
    out = []
    if cfg.get("tries", 1) > 1:
        c = dict(cfg)
        c["tries"] = cfg["tries"] - 1
        out.append({"config": c, "events": case["events"]})
    if cfg.get("klass") == "life" and cfg.get("variant") == "synthetic":
        for key in ("public", "private", "tlds"):
            for i in range(len(cfg[key])):
                c = dict(cfg)
                c[key] = cfg[key][:i] + cfg[key][i + 1 :]
                out.append({"config": c, "events": case["events"]})
    return out


# -----------------------------------------------------------------------------
# Known-finding matchers
# -----------------------------------------------------------------------------
MATCHERS = {}

TIERS = {
    "quick": {"runs": 8000, "chunk": 100, "budget_s": 70},
    "thorough": {"runs": 250000, "chunk": 250, "budget_s": 1500},
}
PROBES = [
    "exception_rule_hit",
    "exception_parent_query",
    "wildcard_and_explicit_sibling",
    "bare_suffix_host",
    "no_rule_matches",
    "two_exceptions_same_parent",
    "duplicate_rule",
    "schedules_compared",
    "upgrade_ok_transient",
    "upgrade_ok_persisted",
    "upgrade_removed_rules",
    "publish_removed_rules",
    "upgrade_failed_URLError",
    "upgrade_failed_ConnectionResetError",
    "upgrade_failed_UnicodeDecodeError",
    "upgrade_failed_PermissionError",
    "upgrade_failed_OSError",
    "failed_upgrade_left_old",
    "failed_upgrade_left_served",
    "crash_torn",
    "crash_lost_interior_block",
    "list_format_crlf",
    "list_format_pad",
    "list_format_nofinal",
    "list_format_puny",
    "list_format_nomarkers",
    "list_format_tail",
    "restart_ok",
    "restart_bootfail",
    "recovered_after_faults",
]
RULE = (
    "one case = either a seeded history of SuffixTrie.add calls (<= 4 rules quick / <= 6 thorough, normal / wildcard / "
    "exception, duplicates, the same multiset replayed under 1-3 seeded schedules into as many tries) with every hostname "
    "of depth <= 4 over the 3-label alphabet (+ a foreign label) queried after every add, or a seeded life-cycle history of "
    "the process-global state of ural.tld (origins publish list versions, operator runs upgrade(transient) / upgrade() / "
    "restart, network and disk faults and crashes land inside upgrades) starting from a synthetic data file or the real "
    "bundled one, with a host sweep after every operator event. Oracle: an independent set-based implementation of the "
    "publicsuffix.org algorithm over the rule list in effect (after a successful upgrade: the list the origin served; after "
    "a failed one and after a restart: the list the module itself holds in tld_data, so never a mixture or a stale trie). "
    "distinct_nontrivial = distinct non-empty rule sets reached (rules class) plus distinct (operation, list in effect, "
    "durable file) states (life class)."
)
ASSUMPTIONS = [
    "a host matched by no rule has no valid suffix (the property's wording; the PSL's implicit '*' rule is not applied)",
    "wildcard rules are leftmost-only, exception rules have at least two labels (as in the real list)",
    "hostnames are ordinary (no IP literal, no 'localhost')",
    "operations are atomic: a query never runs in the middle of upgrade()/refresh(); the library documents no thread safety",
    "a torn data file that fails to import is 'node down' (counted as probe restart_bootfail, the operator reinstalls the last good file): no listed property promises crash-atomic upgrades",
    "the TLD clause is checked relationally (last label only; case, leading dot and punycode/Unicode spelling do not matter), independent of what TLD_SET holds",
    "sampled histories: a clean batch is evidence, not proof; the preflight sweep over the bundled list is plain enumeration and reported separately",
]
NO_SEAM = (
    "injected: connection refused, reset while reading, truncated body, undecodable body, stale version, open error, write "
    "error (ENOSPC) at the k-th write, I/O error reported by close() with a lost tail, crash at the k-th write with a torn / partially lost durable image, crash before the "
    "file is opened. Not injectable here: message reordering/duplication, partitions between more than two parties, clock "
    "skew, timeouts (the code has no timers, retries or concurrency), allocation failure"
)
