# =============================================================================
# C11 — LRU tries return the value of the longest stored URL prefix
# =============================================================================
#
# System under test: one shared trie of a seeded class among LRUTrie,
# CanonicalizedLRUTrie, NormalizedLRUTrie, FingerprintedLRUTrie, with seeded
# suffix_aware and variant options (real code: ural/lru/*, TrieDict and — via
# tokenisation — canonicalize_url / normalize_url / fingerprint_url /
# split_suffix).  No stub.
# Reference model: a dict keyed by the tuple of the class's stems (computed by
# calling the repository's *module-level* stem function, never the trie's own
# tokenize method) with empty path stems removed; longest-prefix lookup.
# Independent cross-check (same-key law): URLs that the variant's URL-level
# function maps to one string must always give the same match result.
# Faults: set() of a URL the stem function rejects, iterator cancellation.
#
from sim.core import sut_len, bounded, ABSENT, HarnessError, Violation, canon, dec_value, geometric, r, same, stream, weighted_choice

NAME = "C11"

CLASSES = ["LRUTrie", "CanonicalizedLRUTrie", "NormalizedLRUTrie", "FingerprintedLRUTrie"]
CONST_VALUES = [None, 0, False, "", 1]
FAULT_KINDS = ["set_unparseable", "lru_unhashable_token", "iter_cancel"]
BAD_URLS = ["http://[::1", "http://[a.fr/x", "https://[x]y/"]

COMPONENTS = {
    "real": [
        "ural.lru.trie.LRUTrie / CanonicalizedLRUTrie / NormalizedLRUTrie / FingerprintedLRUTrie",
        "ural.classes.trie_dict.TrieDict",
        "ural.lru.serialization.unserialize_lru",
        "ural.lru.stems.* , canonicalize_url, normalize_url, fingerprint_url, ural.tld.split_suffix (real code shared with the model: the model's keys are computed with the module-level stem functions)",
    ],
    "stub": [],
}

HOST_FAMILIES = {
    "fr": ["lemonde.fr", "blog.lemonde.fr", "a.blog.lemonde.fr", "www.lemonde.fr", "fr", "lemonde.fr."],
    "couk": ["a.co.uk", "b.a.co.uk", "www.a.co.uk", "co.uk", "uk"],
    "idn": ["télérama.fr", "xn--tlrama-bvab.fr", "www.télérama.fr", "m.xn--tlrama-bvab.fr"],
    "ghio": ["github.io", "a.github.io", "b.a.github.io", "io"],
    "lang": ["lemonde.fr", "fr.lemonde.fr", "en-us.lemonde.fr", "m.lemonde.fr", "amp.lemonde.fr"],
    "amp": ["lemonde.fr", "amp.lemonde.fr", "m.lemonde.fr", "mobile.lemonde.fr", "www2.lemonde.fr", "amp-lemonde.fr", "www.m.lemonde.fr"],
    "special": ["localhost", "127.0.0.1", "app.localhost", "localhost.com", "x.intranet", "intranet", "lemonde.fr"],
    "platform": ["facebook.com", "m.facebook.com", "fr-fr.facebook.com", "www.youtube.com", "m.youtube.com", "youtu.be", "www.youtube-nocookie.com", "fb.me", "facebook.co.uk", "lemonde.fr"],
}
FAMILY_ORDER = ["fr", "couk", "idn", "ghio", "lang", "special", "platform", "amp"]
PLATFORM_SEEDS = ["/watch?v=abcdefghijk", "/abcdefghijk", "/someuser/posts/1234567890", "/story.php?story_fbid=12345&id=6789", "/channel/UCabcdefghijklmnopqrstuv",
                  "/", "", "/watch", "/watch?v=", "/watch?v=abc", "/v/abcdefghijk", "/embed/abcdefghijk", "/embed/", "/user/someone", "/c/someone/videos", "/@someone",
                  "/channel/", "/playlist?list=PLabcdefghijk", "/shorts/abcdefghijk", "/shorts/", "/watch?v=abcdefghijk&list=PLx#t=3", "/#v=abcdefghijk", "/attribution_link?u=%2Fwatch%3Fv%3Dabcdefghijk",
                  "/permalink.php?story_fbid=1&id=2", "/permalink.php", "/groups/123/permalink/456/", "/groups/", "/groups/somegroup", "/photo.php?fbid=1", "/photo.php", "/profile.php?id=4", "/profile.php",
                  "/people/Some-Name/123", "/people/", "/pages/Some-Page/123", "/someuser", "/someuser/", "/someuser/videos/123/", "/someuser/videos/", "/watch/?v=123", "/watch/", "/l.php?u=http%3A%2F%2Flemonde.fr%2Fa&h=x", "/l.php",
                  "/events/123", "/notes/someone/title/123", "/123", "/0", "/story.php", "/sharer/sharer.php?u=http%3A%2F%2Flemonde.fr", "/dialog/share?href=x", "/hashtag/x", "/x/posts/pfbid0abc", "/x/posts/"]
PLATFORM_FULL = ["/groups/123/permalink/456/", "/groups/somegroup/posts/456/", "/someuser/posts/123", "/someuser/videos/vb.1/123/", "/someuser/photos/a.1/2/?type=3",
                 "/photo.php?fbid=1&set=a.2", "/permalink.php?story_fbid=1&id=2", "/story.php?story_fbid=1&id=2", "/profile.php?id=4", "/people/Some-Name/123", "/watch/?v=123",
                 "/watch/live/?v=1", "/pages/Some/123", "/events/1/permalink/2", "/media/set/?set=a.1", "/notes/a/b/1", "/l.php?u=http%3A%2F%2Flemonde.fr", "/a.php",
                 "/watch?v=abcdefghijk&list=PL1", "/v/abcdefghijk", "/embed/abcdefghijk", "/shorts/abcdefghijk", "/channel/UCabcdefghijklmnopqrstuv/videos", "/user/someone/videos",
                 "/c/someone", "/@someone/videos", "/playlist?list=PL1", "/redirect?q=lemonde.fr", "/live/abcdefghijk", "/watch#v=abcdefghijk", "/#/watch?v=abcdefghijk",
                 "//watch?v=abcdefghijk", "/watch?V=abcdefghijk", "/watch?v=abcdefghijkXYZ"]


def _platform_paths():
    """Every platform URL shape cut at each '/' and with each part of its query
    missing: the shapes the platform parsers index into."""
    paths = set(PLATFORM_SEEDS)
    for f in PLATFORM_FULL:
        p, _, q = f.partition("?")
        segs = p.split("/")
        for i in range(1, len(segs) + 1):
            pre = "/".join(segs[:i])
            for tail in ("", "/"):
                paths.add(pre + tail)
                if q:
                    paths.add(pre + tail + "?" + q)
                    paths.add(pre + tail + "?")
                    for item in q.split("&"):
                        paths.add(pre + tail + "?" + item)
                        paths.add(pre + tail + "?" + item.split("=")[0] + "=")
    return sorted(paths)


PLATFORM_PATHS = _platform_paths()
PLATFORM_TWINS = ["/a", "/someuser", "/c/someone", "/user/someone", "/channel/UCabcdefghijklmnopqrstuv", "/groups/somegroup", "/people/Some-Name/123"]
# a literal '|' inside a stem is legal as long as it is not followed by a stem
# marker ('p:' etc.): the serialised format only splits before markers
PATHS = ["", "/", "/a", "/a/", "/a/b", "/a//b", "/a/b/", "/a/index.html", "/a/./b", "/A", "/%61", "/a/b.html", "/a/b/c", "/a|b", "/a/Foo|Bar", "/a|b/c", "/a||b", "/a|/b",
         # spellings the URL-level functions merge: '..' climbing above the root, and
         # the letter case of an escape that stays quoted
         "/../a", "/a/../../a/b", "/a%3Fb", "/a%3fb",
         # an escaped pipe is just text; a padded URL is its own spelling
         "/a%7Cb", "/a%7cb", "/a ",
         # AMP markers and index pages
         "/amp", "/a/amp/", "/a.amp.html", "/a.amp", "/a/index.php", "/index.html", "/a/default.aspx", "/a/b/..", "/a/b/.", "/a;x=1", "/a%2Fb", "/a%20b", "/a+b", "/é", "/%C3%A9",
         # double-encoded delimiters next to their once-encoded spellings; composed and
         # decomposed spellings of one character (different strings, different keys)
         "/a%253Fb", "/a%2523b", "/a%2541", "/caf%C3%A9", "/cafe%CC%81", "/caf\u00e9", "/cafe\u0301"]
TWIN_GROUPS = [
    ["/a%253Fb", "/a%3Fb", "/a?b", "/a%3fb"],
    ["/a%2523b", "/a%23b", "/a#b"],
    ["/caf%C3%A9", "/cafe%CC%81", "/caf\u00e9", "/cafe\u0301", "/caf%c3%a9"],
    ["/a%7Cb", "/a%7cb", "/a|b"],
    ["/../a", "/a", "/a/../a", "/%61", "/./a"],
    ["/a/", "/a", "/a/index.html", "/a//", "/a/?"],
    ["/a?x=1&y=2", "/a?y=2&x=1", "/a?x=1&amp;y=2", "/a?x=1&y=2&utm_source=z", "/a?x=1&y=2#f"],
    ["/a%2541", "/a%41", "/aA", "/aa"],
]
QUERIES = ["", "x=1", "x=1&y=2", "y=2&x=1", "utm_source=z&x=1", "x=1&utm_source=z", "X=1", "hl=fr&x=1", "k=a|b", "k=%3d1", "k=%3D1",
           # items the normaliser knows about, and malformed queries
           "amp", "amp=1", "outputType=amp", "mode=amp&x=1", "m=1", "ref=bookmark", "fbclid=abc&x=1", "gl=us&x=1", "x=1&amp;y=2", "x=1?y=2", "x", "x=", "=1", "&", "x=1&", "x=1&&y=2", "x=1;y=2", "x=1&x=2", "x=2&x=1", "x=a%20b", "x=a+b", "b", "k=%2523"]
FRAGMENTS = ["", "#f", "#/route", "#!/route", "#b"]
PORTS = ["", ":80", ":443", ":8080", ":"]
SCHEMES = ["http://", "https://", "", "HTTP://", "//"]
AUTHS = ["", "", "", "user:pw@"]


def variant_kwargs(cls, crng):
    kw = {}
    if cls == "CanonicalizedLRUTrie":
        for k in ("strip_fragment", "quoted"):
            if crng.random() < 0.4:
                kw[k] = crng.random() < 0.5
        if crng.random() < 0.3:
            kw["default_protocol"] = crng.choice(["http", "https", "ftp"])
    elif cls == "NormalizedLRUTrie":
        for k in ("strip_trailing_slash", "sort_query", "strip_index", "normalize_amp", "infer_redirection", "strip_irrelevant_subdomains", "quoted", "strip_protocol", "strip_authentication", "platform_aware", "fix_common_mistakes"):
            if crng.random() < 0.3:
                kw[k] = crng.random() < 0.5
        if crng.random() < 0.2:
            kw["strip_fragment"] = crng.choice([True, False, "except-routing"])
    elif cls == "FingerprintedLRUTrie":
        for k in ("strip_suffix", "platform_aware"):
            if crng.random() < 0.4:
                kw[k] = crng.random() < 0.5
    return kw


def build_universe(crng, size):
    fams = [crng.choice(FAMILY_ORDER)]
    if crng.random() < 0.3:
        fams.append(crng.choice(FAMILY_ORDER))
    hosts = []
    for f in fams:
        family = HOST_FAMILIES[f]
        if f == "platform":
            family = crng.sample(family, len(family))
        for h in family:
            if h not in hosts:
                hosts.append(h)
    hosts = hosts[: crng.choice([3, 4, 6])]
    paths = ["", "/", "/a", "/a/b"] + crng.sample(PATHS[3:], crng.choice([1, 2, 3]))
    schemes = crng.sample(SCHEMES, crng.choice([1, 2, 3]))
    urls = []

    def push(u):
        if u not in urls:
            urls.append(u)

    # skeleton: host chain x path chain, so that prefix relations abound
    for h in hosts:
        for p in paths[: crng.choice([3, 4, len(paths)])]:
            push(schemes[0] + h + p)
    # spellings that belong together (or look as if they did) on one host
    if crng.random() < 0.35:
        group = crng.choice(TWIN_GROUPS)
        for h in hosts[: crng.choice([1, 2])]:
            for p in group:
                push(schemes[0] + h + p)
    if "platform" in fams:
        for h in hosts:
            if h in HOST_FAMILIES["platform"] and h != "lemonde.fr":
                for p in crng.sample(PLATFORM_PATHS, 3):
                    push(schemes[0] + h + p)
                # schemeless spelling twins: one the platform parser recognises, one it
                # does not, both normalising to the same string
                p = crng.choice(PLATFORM_TWINS)
                push(h + p)
                push(h + "/.." + p)
    # URLs that only carry another URL of the universe as an obvious redirection
    # target (the normalising variants resolve them: same string, same key)
    from urllib.parse import quote

    for _ in range(crng.choice([0, 0, 1, 2])):
        target = crng.choice(urls)
        if "://" in target:
            push("http://r.example/r?url=" + quote(target, safe=""))
            push("https://l.example/l.php?u=" + quote(target, safe="") + "&h=x")
            if "#" not in target and "?" not in target and "|" not in target and crng.random() < 0.7:
                # the same, unquoted: '://' inside a query and inside a fragment
                push("http://r.example/go?u=" + target)
                push("http://r.example/p#" + target)
    while len(urls) < size:
        s = crng.choice(schemes)
        h = crng.choice(hosts)
        if crng.random() < 0.15:
            h = h.upper()
        u = s + (crng.choice(AUTHS) if s not in ("", "//") else "") + h + crng.choice(PORTS) + crng.choice(paths)
        q = crng.choice(QUERIES) if crng.random() < 0.4 else ""
        f = crng.choice(FRAGMENTS) if crng.random() < 0.3 else ""
        if q:
            if not u.endswith("/") and "/" not in u.split("//")[-1]:
                u += "/"
            u += "?" + q
        u += f
        push(u)
    return urls[:size]


def generate(seed, run, tier):
    crng = stream(NAME, seed, run, "config")
    wrng = stream(NAME, seed, run, "workload")
    srng = stream(NAME, seed, run, "schedule")
    frng = stream(NAME, seed, run, "faults")

    cls = crng.choice(CLASSES)
    config = {
        "cls": cls,
        "suffix_aware": crng.random() < 0.5,
        "kwargs": variant_kwargs(cls, crng),
    }
    config["explicit_default"] = crng.random() < 0.5
    size = crng.choice([12, 20, 30, 40] if tier == "quick" else [12, 20, 30, 50, 80])
    universe = build_universe(crng, size)
    config["universe"] = universe
    if cls in ("NormalizedLRUTrie", "FingerprintedLRUTrie") and any("youtu" in u or "facebook" in u for u in universe):
        # a universe with platform URLs mostly meets a platform-aware trie, and the
        # normalised variant then often keeps its scheme
        if crng.random() < 0.6:
            config["kwargs"]["platform_aware"] = True
        if cls == "NormalizedLRUTrie" and crng.random() < 0.4:
            config["kwargs"]["strip_protocol"] = False
    cap = 32 if tier == "quick" else 96
    length = geometric(crng, 8, cap, lo=1)
    enabled = [k for k in FAULT_KINDS if crng.random() < 0.6] if crng.random() < 0.5 else []
    fault_rate = crng.choice([0.05, 0.1, 0.15]) if enabled else 0.0
    config["fault_class"] = bool(enabled)
    # observation schedule (swarm): see c10
    config["sweep"] = weighted_choice(crng, [({"iter": True, "stride": 1}, 55), ({"iter": False, "stride": 1}, 15), ({"iter": False, "stride": 3}, 20), ({"iter": True, "stride": 2}, 10)])
    value_mode = crng.choice(["unique", "unique", "const", "mixed"])
    n_writers = crng.choice([1, 1, 2, 3])
    n_readers = crng.choice([0, 1, 2])
    n_iters = crng.choice([0, 0, 1, 2])
    counter = [0]

    def draw_value():
        mode = value_mode
        if mode == "mixed":
            mode = wrng.choice(["unique", "const"])
        if mode == "unique":
            counter[0] += 1
            return {"u": counter[0]}
        return {"c": wrng.choice(CONST_VALUES)}

    def draw_lru():
        # a recipe, turned into stems when the event is executed (generation never
        # calls the library): the stems of a universe URL, possibly only a leading
        # part of them, possibly with empty path stems pushed inside
        if wrng.random() < 0.04:
            # the empty LRU (also spelled as a lone empty path stem) is a key
            # like any other: it is a prefix of every query
            return {"stems": wrng.choice([[], ["p:"]])}
        recipe = {"url": wrng.choice(universe)}
        if wrng.random() < 0.4:
            recipe["keep"] = wrng.random()
        p_at = []
        if wrng.random() < 0.2:
            p_at.append(wrng.random())
        if wrng.random() < 0.2:
            p_at.append(wrng.random())
        if p_at:
            recipe["p_at"] = p_at
        return recipe

    def draw_set():
        x = wrng.random()
        if x < 0.7:
            return {"op": "set", "url": wrng.choice(universe), "via": wrng.choice(["set", "set", "setitem"]), "val": draw_value()}
        return {"op": "set_lru", "lru": draw_lru(), "as": wrng.choice(["list", "str"]), "val": draw_value()}

    scripts = [[] for _ in range(n_writers)]
    for _ in range(length):
        scripts[wrng.randrange(n_writers)].append(draw_set())
    # other trie instances living in the same process, with their own class and
    # options: instances must not share state (options dicts, caches)
    others = []
    if crng.random() < 0.35:
        for i in range(crng.choice([1, 1, 2])):
            ocls = crng.choice(CLASSES)
            others.append({"i": i, "cls": ocls, "suffix_aware": crng.random() < 0.5, "kwargs": variant_kwargs(ocls, crng)})
    elif cls != "LRUTrie" and config["kwargs"] and crng.random() < 0.5:
        # a sibling: same class, same option names, other values (anything cached
        # per URL must take the option values into account)
        flipped = {}
        for k, v in sorted(config["kwargs"].items()):
            if isinstance(v, bool):
                flipped[k] = not v
            elif k == "strip_fragment":
                flipped[k] = {"except-routing": True}.get(v, "except-routing")
            elif k == "default_protocol":
                flipped[k] = "http" if v != "http" else "https"
            else:
                flipped[k] = v
        others.append({"i": 0, "cls": cls, "suffix_aware": config["suffix_aware"], "kwargs": flipped, "sibling": True})
    other_events = []
    for spec in others:
        other_events.append(dict(spec, op="other_create", c="O%d" % spec["i"]))
        for _ in range(wrng.randint(2, 5) if spec.get("sibling") else wrng.randint(0, 3)):
            other_events.append({"op": wrng.choice(["other_set", "other_match"]), "i": spec["i"], "url": wrng.choice(universe), "val": {"c": "other"}, "c": "O%d" % spec["i"]})
    tasks = [("W", i) for i in range(n_writers)] + [("R", i) for i in range(n_readers)] + [("I", i) for i in range(n_iters)]
    if other_events:
        tasks.append(("O", 0))
    events = []
    live = {}
    budget = length * 4 + 8
    while any(scripts) and len(events) < budget:
        kind, idx = srng.choice(tasks)
        if kind == "O":
            if other_events:
                events.append(other_events.pop(0))
            continue
        if kind == "W":
            if not scripts[idx]:
                continue
            ev = scripts[idx].pop(0)
            ev["c"] = "W%d" % idx
            if "iter_cancel" in enabled:
                for it in sorted(live):
                    if frng.random() < 0.5:
                        events.append({"op": "iter_cancel", "it": it, "how": frng.choice(["close", "throw"]), "c": "F"})
                        del live[it]
            if "set_unparseable" in enabled and frng.random() < fault_rate:
                events.append({"op": "set_bad", "url": frng.choice(BAD_URLS), "val": {"c": "bad"}, "retry": frng.choice([0, 0, 1, 2]), "then_match": frng.random() < 0.3, "c": "W%d" % idx})
            if "lru_unhashable_token" in enabled and frng.random() < fault_rate:
                events.append({"op": "set_lru_bad", "lru": draw_lru(), "k": frng.randint(0, 6), "val": {"c": "bad"}, "retry": frng.choice([0, 0, 1]), "c": "W%d" % idx})
            events.append(ev)
        elif kind == "R":
            op = weighted_choice(wrng, [("match", 5), ("match_lru", 3), ("len", 1)])
            ev = {"op": op, "c": "R%d" % idx}
            if op == "match":
                ev["url"] = wrng.choice(universe)
            elif op == "match_lru":
                ev["lru"] = draw_lru()
                ev["as"] = wrng.choice(["list", "str"])
            events.append(ev)
        else:
            it = "I%d" % idx
            if it not in live:
                events.append({"op": "iter_open", "it": it, "c": it})
                live[it] = True
            elif wrng.random() < 0.3:
                events.append({"op": "iter_drain", "it": it, "c": it})
                del live[it]
            elif "iter_cancel" in enabled and frng.random() < 0.2:
                events.append({"op": "iter_cancel", "it": it, "how": frng.choice(["close", "throw", "drop"]), "c": "F"})
                del live[it]
            else:
                events.append({"op": "iter_next", "it": it, "n": wrng.randint(1, 3), "c": it})
    for it in sorted(live):
        events.append({"op": "iter_drain", "it": it, "c": it})
    if crng.random() < 0.02 and events:
        pos = srng.randrange(len(events) + 1)
        events.insert(pos, {"op": "flood", "n": crng.choice([4200, 8300]), "c": "R9"})
    if crng.random() < 0.06 and events:
        pos = srng.randrange(len(events) + 1)
        events.insert(pos, {"op": "foreign_prune", "c": "X"})
    return {"config": config, "events": events}


# -----------------------------------------------------------------------------
class SimCancel(Exception):
    pass


def clean(stems):
    return tuple(s for s in stems if s != "p:")


def serialize(stems):
    return "|".join(stems) + "|"


def prefix_lookup(model, key):
    for n in range(len(key), -1, -1):
        v = model.get(key[:n], ABSENT)
        if v is not ABSENT:
            return v
    return None


_BUNDLED_RULES = []


def bundled_ruleset():
    """Independent PSL reference over the repository's bundled rule list (data
    file only; none of the repository's suffix code)."""
    if not _BUNDLED_RULES:
        import os

        import ural
        from sim import psl

        path = os.path.join(os.path.dirname(os.path.abspath(ural.__file__)), "tld_data.py")
        ns = {}
        with open(path, "rb") as f:
            exec(compile(f.read().decode("utf-8"), path, "exec"), ns)
        _BUNDLED_RULES.append(psl.RuleSet(list(ns["PUBLIC_SUFFIXES"]) + list(ns["PRIVATE_SUFFIXES"])))
    return _BUNDLED_RULES[0]


def parse_simple(url):
    """Components of a universe URL, by the standard library only.  Returns None
    for URLs the by-construction hierarchy does not speak about."""
    from urllib.parse import urlsplit

    if "://" in url:
        full = url
    elif url.startswith("//"):
        full = "http:" + url  # protocol-relative: the default scheme applies
    else:
        full = "http://" + url
    try:
        sp = urlsplit(full)
        host = sp.hostname
        port = sp.port
    except ValueError:
        return None
    if not host or host != host.lower() or any(ord(ch) > 127 for ch in host) or "xn--" in host:
        return None
    if host.replace(".", "").isdigit() or not all(host.split(".")):
        return None
    hostport = sp.netloc.rsplit("@", 1)[-1]
    netloc_host = hostport.split(":")[0]
    if netloc_host != host:
        return None  # upper-case spelling in the URL itself
    if ":" in hostport:
        port = hostport.split(":", 1)[1]  # an explicit port, even an empty one, is a stem of its own
    return {
        "scheme": sp.scheme,
        "labels": tuple(host.split(".")),
        "port": port,
        "auth": "@" in sp.netloc,
        "segs": [x for x in sp.path.split("/")[1:] if x != ""],
        "query": sp.query,
        "fragment": sp.fragment,
    }


def below_by_construction(u, v, suffix_aware, rules):
    """True when, whatever the stem function does internally, URL v lies at or
    under URL u in the LRU hierarchy: same scheme, no port, u has no auth /
    query / fragment, host(v) is host(u) or a subdomain of it (not crossing the
    public-suffix boundary when suffix-aware) and then any path; or same host
    and path(u) a segment-wise prefix of path(v)."""
    if u["scheme"] != v["scheme"] or u["port"] is not None or v["port"] is not None:
        return False
    if u["auth"] or u["query"] or u["fragment"]:
        return False
    lu, lv = u["labels"], v["labels"]
    if lv[len(lv) - len(lu) :] != lu or len(lu) > len(lv):
        return False
    if suffix_aware:
        ku, kv = rules.suffix_length(lu), rules.suffix_length(lv)
        if ku != kv:
            return False
        if ku is not None and lu[len(lu) - ku :] != lv[len(lv) - kv :]:
            return False
    if len(lv) > len(lu):
        return not u["segs"]
    return v["segs"][: len(u["segs"])] == u["segs"]


_SAFE_PATH = frozenset("abcdefghijklmnopqrstuvwxyzABCDEFGHIJKLMNOPQRSTUVWXYZ0123456789/._-")


def shape_of(string):
    """Host labels and path segments of a URL-level string (the stored URL itself
    for the plain trie, the variant function's string for a variant trie), read
    without any ural code; None when the cover law does not speak about it."""
    import re

    if not isinstance(string, str) or "|" in string or string != string.strip():
        return None
    m = re.match(r"^(?:[A-Za-z][A-Za-z0-9+.\-]*:)?//", string)
    rest = string[m.end() :] if m else string
    netloc = re.split(r"[/?#]", rest, 1)[0]
    tail = rest[len(netloc) :]
    path = re.split(r"[?#]", tail, 1)[0]
    if "//" in path or "\\" in rest:
        return None  # 'host//x' can be read as a scheme
    hostport = netloc.rsplit("@", 1)[-1]
    if not re.match(r"^[^:\[\]%\s]+(?::\d*)?$", hostport):
        return None
    labels = tuple(hostport.split(":")[0].lower().split("."))
    if not all(labels):
        return None
    segs = None
    if all(ch in _SAFE_PATH for ch in path):
        segs = tuple(x for x in path.split("/") if x != "")
    return labels, segs


def may_cover(w, v):
    """Necessary condition for the stems of a stored URL (shape w) to be a prefix
    of the stems of a queried URL (shape v), whatever the stem function does:
    host stems come first and are the host's labels from the right, path stems
    follow; so host(w) is host(v) or a label-wise suffix of it, and if w has a
    path the hosts are equal and its segments start v's."""
    lw, sw = w
    lv, sv = v
    if len(lw) > len(lv) or lv[len(lv) - len(lw) :] != lw:
        return False
    if sw is None or sv is None or not sw:
        return True
    return len(lw) == len(lv) and sv[: len(sw)] == sw


class Run(object):
    def __init__(self, config, stats, known):
        import ural.lru as lru
        import ural.lru.stems as stems_mod
        from ural import canonicalize_url, normalize_url, fingerprint_url

        self.cfg = config
        self.stats = stats
        self.known = known
        cls = config["cls"]
        self.kwargs = dict(config["kwargs"])
        self.suffix_aware = config["suffix_aware"]
        if self.suffix_aware or config.get("explicit_default", False):
            self.trie = getattr(lru, cls)(suffix_aware=self.suffix_aware, **self.kwargs)
        else:
            # suffix_aware is documented to default to False: half of the tries
            # that want False simply do not pass it
            self.trie = getattr(lru, cls)(**self.kwargs)
        self.stem_fn = {
            "LRUTrie": stems_mod.lru_stems,
            "CanonicalizedLRUTrie": stems_mod.canonicalized_lru_stems,
            "NormalizedLRUTrie": stems_mod.normalized_lru_stems,
            "FingerprintedLRUTrie": stems_mod.fingerprinted_lru_stems,
        }[cls]
        self.url_fn = {
            "LRUTrie": None,
            "CanonicalizedLRUTrie": canonicalize_url,
            "NormalizedLRUTrie": normalize_url,
            "FingerprintedLRUTrie": fingerprint_url,
        }[cls]
        self.model = {}
        self.iters = {}
        self.others = {}
        self.sweeps = 0
        self.universe = list(config["universe"])
        self.keys = {}
        self.groups = {}
        for u in self.universe:
            self.keys[u] = self.key_of(u)
            if self.url_fn is not None:
                s = self.url_fn(u, **self.kwargs)
                self.groups.setdefault(s, []).append(u)
        self.group_list = [g for _, g in sorted(self.groups.items()) if len(g) > 1]
        # cover law (independent of the stem functions): shapes of the URL-level strings
        self.shapes = {}
        for u in self.universe:
            self.shapes[u] = shape_of(u if self.url_fn is None else self.url_fn(u, **self.kwargs))
        self.cover_shapes = []  # shapes of every URL stored so far
        self.cover_off = False  # something was stored that the law cannot attribute
        # by-construction hierarchy (plain LRUTrie only: the variants rewrite
        # hosts and paths before stemming), independent of the stem functions
        self.below = {}
        self.stored_urls = {}
        self.none_stored = False
        if cls == "LRUTrie":
            rules = bundled_ruleset() if self.suffix_aware else None
            parsed = [(u, parse_simple(u)) for u in self.universe]
            for u, pu in parsed:
                if pu is None:
                    continue
                vs = [v for v, pv in parsed if pv is not None and below_by_construction(pu, pv, self.suffix_aware, rules)]
                if vs:
                    self.below[u] = vs
        stats.probe("cls_" + cls)
        if self.suffix_aware:
            stats.probe("suffix_aware")

    def key_of(self, url):
        if self.cfg["cls"] == "LRUTrie":
            stems = self.stem_fn(url, suffix_aware=self.suffix_aware)
        else:
            stems = self.stem_fn(url, suffix_aware=self.suffix_aware, **self.kwargs)
        if not isinstance(stems, (list, tuple)):
            # the module-level stem function is part of the system under test
            raise Violation("stem_function", "tokenize", r(stems), "a list of stems", {"url": url})
        return clean(stems)

    def fail(self, invariant, op, got, expected, detail=None):
        finding = self.known.match(NAME, {"invariant": invariant, "op": op, "got": got, "expected": expected, "detail": detail})
        if finding is not None:
            self.stats.known_finding(finding)
            return
        raise Violation(invariant, op, r(got), r(expected), detail)

    def expect(self, invariant, op, got, expected, detail=None):
        self.stats.checks += 1
        if not same(got, expected):
            self.fail(invariant, op, got, expected, detail)

    def entries_now(self, rec):
        return len(self.model)

    def stems_of(self, ev):
        """Stems of a set_lru / match_lru event: given explicitly, or derived now
        from the event's recipe with the plain module-level lru_stems."""
        if "stems" in ev:
            return list(ev["stems"])
        recipe = ev["lru"]
        if "stems" in recipe:
            return list(recipe["stems"])
        from ural.lru.stems import lru_stems

        stems = list(lru_stems(recipe["url"], suffix_aware=self.suffix_aware))
        if recipe.get("keep") is not None and len(stems) > 1:
            stems = stems[: max(1, int(len(stems) * recipe["keep"]) + 1)]
        for p in recipe.get("p_at", ()):
            i = min(len(stems), 1 + int(p * len(stems)))
            stems = stems[:i] + ["p:"] + stems[i:]
        return stems

    def lru_arg(self, stems, how):
        # the serialised format cannot represent an empty stem list or a last
        # stem ending in '|' (trailing pipes are stripped): pass those as lists
        if how == "str" and stems and not stems[-1].endswith("|"):
            return serialize(stems)
        return list(stems)

    def sweep(self, op, force=False):
        sw = self.cfg.get("sweep") or {}
        stride = 1 if force else sw.get("stride", 1)
        do_iter = force or sw.get("iter", True)
        self.sweeps += 1
        off = self.sweeps % stride
        # every other complete observation starts with the traversal
        iter_first = do_iter and self.sweeps % 2 == 1
        if iter_first:
            got = sorted(r(v) for v in bounded(self.trie, len(self.model)))
            exp = sorted(r(v) for v in self.model.values())
            self.stats.checks += 1
            if got != exp:
                self.fail("iteration", op, got, exp)
        results = {}
        n = 0
        for u in self.universe:
            n += 1
            if n % stride != off:
                continue
            key = self.keys[u]
            got = self.trie.match(u)
            results[u] = got
            expected = prefix_lookup(self.model, key)
            self.expect("match", op, got, expected, {"url": u, "stems": list(key)})
            if n % 3 == 0 and self.cfg["cls"] == "LRUTrie":
                # for the plain trie, the URL's own stems are a valid LRU query
                how = "str" if n % 2 else "list"
                got2 = self.trie.match_lru(self.lru_arg(key, how))
                self.expect("match_lru", op, got2, expected, {"stems": list(key), "as": how})
        # same-key law: one URL-level string => one key
        if stride == 1:
            for group in self.group_list:
                first = results[group[0]]
                for u in group[1:]:
                    self.stats.checks += 1
                    if not same(results[u], first):
                        self.fail("same_key", op, {u: r(results[u])}, {group[0]: r(first)}, {"string": self.url_fn(u, **self.kwargs)})
        # cover law: a hit needs a stored URL whose host is the query's host or a
        # label-wise suffix of it (and whose path starts the query's): "None when no
        # stored URL is a prefix", judged on the URL-level strings alone
        if not self.cover_off:
            for v, got in results.items():
                if got is None:
                    continue
                shape = self.shapes.get(v)
                if shape is None:
                    continue
                self.stats.checks += 1
                if not any(may_cover(w, shape) for w in self.cover_shapes):
                    self.fail("cover", op, r(got), None, {"queried": v, "stored_shapes": [[".".join(w[0]), None if w[1] is None else "/".join(w[1])] for w in self.cover_shapes][:6]})
            self.stats.probe("cover_law_checked")
        # hierarchy law: a URL at or under a stored URL always finds something
        if self.stored_urls and not self.none_stored:
            for u in self.stored_urls:
                for v in self.below[u]:
                    got = results[v] if v in results else self.trie.match(v)
                    self.stats.checks += 1
                    if got is None:
                        self.fail("hierarchy", op, None, "the value stored for %r or for a longer prefix" % (u,), {"stored": u, "queried": v})
            self.stats.probe("hierarchy_law_checked")
        self.expect("len", op, sut_len(self.trie), len(self.model))
        if do_iter:
            got = sorted(r(v) for v in bounded(self.trie, len(self.model)))
            exp = sorted(r(v) for v in self.model.values())
            self.stats.checks += 1
            if got != exp:
                self.fail("iteration", op, got, exp)
        self.stats.state(repr(sorted((k, repr(v)) for k, v in self.model.items())) + self.cfg["cls"], nontrivial=bool(self.model))

    def mutation_begins(self):
        for rec in self.iters.values():
            if not rec["dirty"]:
                rec["dirty"] = True

    def note_set(self, key):
        stats = self.stats
        model = self.model
        if key in model:
            stats.probe("overwrite")
        if any(k != key and k[: len(key)] == key for k in model):
            stats.probe("parent_after_child")
        if any(k != key and key[: len(k)] == k for k in model):
            stats.probe("child_after_parent")

    def step(self, ev):
        op = ev["op"]
        stats = self.stats
        if op == "set":
            url = ev["url"]
            key = self.keys.get(url)
            if key is None:
                key = self.key_of(url)
            value = dec_value(ev["val"])
            if value is None:
                self.none_stored = True
            self.mutation_begins()
            self.note_set(key)
            raw = self.stem_fn(url, suffix_aware=self.suffix_aware, **(self.kwargs if self.cfg["cls"] != "LRUTrie" else {}))
            if "p:" in raw:
                stats.probe("trailing_or_empty_path_stem_in_set")
            if self.suffix_aware and any(s.startswith("h:") and "." in s for s in key):
                stats.probe("suffix_aware_multilabel_suffix")
            before = repr(sorted(self.model)) if stats.collect else ""
            if ev.get("via") == "setitem":
                self.trie[url] = value
            else:
                self.trie.set(url, value)
            self.model[key] = value
            if url in self.below and value is not None:
                self.stored_urls[url] = True
            shape = self.shapes.get(url) if url in self.shapes else shape_of(url if self.url_fn is None else self.url_fn(url, **self.kwargs))
            if shape is None:
                self.cover_off = True
            elif shape not in self.cover_shapes:
                self.cover_shapes.append(shape)
            stats.event("%s|set|%s|%s|%s" % (ev.get("c"), r(url), ev.get("via"), canon(ev["val"])))
            stats.transition(before + "|set|" + repr(key))
            # storing one URL and querying any URL with the same string hits
            if self.url_fn is not None:
                s = self.url_fn(url, **self.kwargs)
                for u in self.groups.get(s, ()):
                    got = self.trie.match(u)
                    stats.checks += 1
                    if not same(got, value):
                        self.fail("same_key_hit", op, r(got), r(value), {"stored": url, "queried": u, "string": s})
                if len(self.groups.get(s, ())) > 1:
                    stats.probe("same_string_class_size_ge2_hit")
            self.sweep("set")
        elif op == "set_lru":
            stems = self.stems_of(ev)
            key = clean(stems)
            value = dec_value(ev["val"])
            if value is None:
                self.none_stored = True
            self.mutation_begins()
            self.note_set(key)
            if "p:" in stems[:-1]:
                stats.probe("empty_path_stem_inside")
            if not key:
                stats.probe("empty_lru_stored")
            stats.probe("set_lru_" + ev["as"])
            if ev["as"] == "str" and any("|" in x for x in stems):
                stats.probe("pipe_inside_serialised_stem")
            before = repr(sorted(self.model)) if stats.collect else ""
            passed = self.lru_arg(stems, ev["as"])
            self.trie.set_lru(passed, value)
            self.cover_off = True  # an entry without a URL behind it
            if isinstance(passed, list):
                passed[:] = ["s:caller", "h:reuses", "p:its", "p:list"]  # the list stays the caller's
            self.model[key] = value
            stats.event("%s|set_lru|%s|%s|%s" % (ev.get("c"), canon(stems), ev["as"], canon(ev["val"])))
            stats.transition(before + "|set_lru|" + repr(key))
            # list and serialised forms of the same stems are interchangeable
            for how in ("list", "str"):
                got = self.trie.match_lru(self.lru_arg(stems, how))
                self.expect("match_lru", op, got, value, {"stems": stems, "as": how})
            self.sweep("set_lru")
        elif op == "set_bad":
            url = ev["url"]
            try:
                self.key_of(url)
                rejected = False
            except Exception:  # noqa
                rejected = True
            if not rejected:
                stats.probe("bad_url_accepted_by_stem_function")
                return
            # the caller may retry the very same call at once, or ask for a match of
            # that URL; like any mutating call, a failing one ends the judging of
            # live iterators
            self.mutation_begins()
            for attempt in range(1 + ev.get("retry", 0)):
                raised = None
                try:
                    self.trie.set(url, dec_value(ev["val"]))
                except Exception as exc:  # noqa
                    raised = type(exc).__name__
                stats.event("%s|set_bad|%s|%s|attempt %d" % (ev.get("c"), r(url), raised, attempt))
                stats.fault("set_unparseable")
                if attempt:
                    stats.probe("failed_call_retried")
                if raised is None:
                    # tolerated (nothing documents the exception); the sweep below
                    # still demands that nothing was stored or overwritten
                    stats.probe("set_unparseable_returned_silently")
                else:
                    stats.probe("set_unparseable_raised")
            if ev.get("then_match"):
                raised = None
                try:
                    got = self.trie.match(url)
                except Exception as exc:  # noqa
                    raised = type(exc).__name__
                stats.event("%s|match_bad|%s|%s" % (ev.get("c"), r(url), raised))
                # an exception or "no match" are both acceptable; a stored value is
                # wrong data (nothing was ever stored for a URL that cannot be read)
                if raised is None and got is not None:
                    self.fail("match_of_rejected_url", op, r(got), "an exception or None", {"url": url})
            self.sweep("set_bad")
        elif op == "set_lru_bad":
            # a stem list with an unhashable token at position k: the call must
            # fail and store nothing (len included)
            stems = self.stems_of(ev)
            k = min(ev.get("k", 0), len(stems))
            self.mutation_begins()
            for attempt in range(1 + ev.get("retry", 0)):
                bad = stems[:k] + [["unhashable"]] + stems[k:]
                raised = None
                try:
                    self.trie.set_lru(bad, dec_value(ev["val"]))
                except Exception as exc:  # noqa
                    raised = type(exc).__name__
                stats.event("%s|set_lru_bad|%s|%d|%s|attempt %d" % (ev.get("c"), canon(stems), k, raised, attempt))
                stats.fault("lru_unhashable_token")
                if raised is None:
                    # accepted (an implementation may filter or never hash its
                    # stems): nothing says what is stored then; stop judging
                    stats.probe("unhashable_stem_accepted")
                    raise StopRun()
            self.sweep("set_lru_bad")
        elif op == "other_create":
            import ural.lru as lru
            import ural.lru.stems as stems_mod

            cls = ev["cls"]
            fn = {"LRUTrie": stems_mod.lru_stems, "CanonicalizedLRUTrie": stems_mod.canonicalized_lru_stems, "NormalizedLRUTrie": stems_mod.normalized_lru_stems, "FingerprintedLRUTrie": stems_mod.fingerprinted_lru_stems}[cls]
            kw = dict(ev["kwargs"]) if cls != "LRUTrie" else {}
            sa = ev["suffix_aware"]
            self.others[ev["i"]] = {
                "trie": getattr(lru, cls)(suffix_aware=sa, **dict(ev["kwargs"])),
                "key": (lambda url, fn=fn, sa=sa, kw=kw: clean(fn(url, suffix_aware=sa, **kw))),
                "model": {},
                "groups": {},
                "string": None,
            }
            if cls != "LRUTrie":
                from ural import canonicalize_url, normalize_url, fingerprint_url

                ofn = {"CanonicalizedLRUTrie": canonicalize_url, "NormalizedLRUTrie": normalize_url, "FingerprintedLRUTrie": fingerprint_url}[cls]
                self.others[ev["i"]]["string"] = lambda url, ofn=ofn, kw=kw: ofn(url, **kw)
                for u in self.universe:
                    self.others[ev["i"]]["groups"].setdefault(ofn(u, **kw), []).append(u)
            stats.probe("other_instance_in_process")
            stats.event("%s|other_create|%s|%s|%s" % (ev.get("c"), cls, sa, canon(ev["kwargs"])))
            # constructing another trie must not disturb this one
            self.sweep("other_create", force=True)
        elif op in ("other_set", "other_match"):
            other = self.others.get(ev["i"])
            if other is None:
                return
            key = other["key"](ev["url"])
            if op == "other_set":
                value = dec_value(ev["val"])
                other["trie"].set(ev["url"], value)
                other["model"][key] = value
            got = other["trie"].match(ev["url"])
            self.expect("match", op, got, prefix_lookup(other["model"], key), {"url": ev["url"], "instance": "other %d" % ev["i"]})
            if op == "other_set" and other["string"] is not None and value is not None:
                # the same-key law holds for every instance, whatever other
                # instances with other option values did to the same URLs before
                sstr = other["string"](ev["url"])
                for u in other["groups"].get(sstr, ()):
                    got = other["trie"].match(u)
                    stats.checks += 1
                    if not same(got, value):
                        self.fail("same_key_hit", op, r(got), r(value), {"stored": ev["url"], "queried": u, "string": sstr, "instance": "other %d" % ev["i"]})
                stats.probe("same_key_law_on_other_instance")
            stats.event("%s|%s|%s" % (ev.get("c"), op, r(ev["url"])))
            if op == "other_set":
                self.sweep("other_set")
        elif op == "foreign_prune":
            # elsewhere in the process a plain TrieDict with stem-like tokens is
            # filled and pruned: the LRU trie's own TrieDict shares nothing with it
            from ural.classes import TrieDict

            other = TrieDict()
            other[["s:http", "h:fr"]] = "foreign-1"
            other[["s:http", "h:fr", "h:lemonde"]] = "foreign-2"
            other[["s:http", "h:fr", "h:lemonde", "p:a"]] = "foreign-3"
            other.set_and_prune_if_shorter(["s:http"], "foreign-4")
            stats.probe("foreign_instance_pruned")
            stats.event("X|foreign_prune")
        elif op == "flood":
            # thousands of distinct URLs (more than a bounded cache holds)
            n = min(int(ev.get("n", 0)), 20000)
            root = prefix_lookup(self.model, ())
            for i in range(n):
                url = "gopher://flood%d.invalid/x" % i
                got = self.trie.match(url)
                stats.checks += 1
                # nothing is stored under scheme gopher: only the empty LRU can match
                if not same(got, root) and not (self.cfg["cls"] in ("NormalizedLRUTrie", "FingerprintedLRUTrie")):
                    self.fail("match", op, r(got), r(root), {"url": url})
            stats.probe("flood_of_distinct_lookups")
            stats.event("%s|flood|%d" % (ev.get("c"), n))
            self.sweep("flood", force=True)
        elif op == "match":
            url = ev["url"]
            key = self.keys.get(url)
            if key is None:
                key = self.key_of(url)
            got = self.trie.match(url)
            self.expect("match", op, got, prefix_lookup(self.model, key), {"url": url})
            stats.event("%s|match|%s" % (ev.get("c"), r(url)))
        elif op == "match_lru":
            stems = self.stems_of(ev)
            got = self.trie.match_lru(self.lru_arg(stems, ev["as"]))
            self.expect("match_lru", op, got, prefix_lookup(self.model, clean(stems)), {"stems": stems, "as": ev["as"]})
            stats.probe("match_lru_" + ev["as"])
            stats.event("%s|match_lru|%s|%s" % (ev.get("c"), canon(stems), ev["as"]))
        elif op == "len":
            self.expect("len", op, sut_len(self.trie), len(self.model))
            stats.event("%s|len|%d" % (ev.get("c"), len(self.model)))
        elif op == "iter_open":
            if ev["it"] in self.iters:
                return
            self.iters[ev["it"]] = {"gen": iter(self.trie), "got": [], "dirty": False}
            if len(self.iters) > 1:
                stats.probe("iterators_interleaved")
            stats.event("%s|iter_open" % ev["it"])
        elif op in ("iter_next", "iter_drain"):
            rec = self.iters.get(ev["it"])
            if rec is None:
                return
            n = ev.get("n", 1) if op == "iter_next" else 4 * self.entries_now(rec) + 64
            done = False
            try:
                while n > 0:
                    n -= 1
                    try:
                        rec["got"].append(next(rec["gen"]))
                    except StopIteration:
                        done = True
                        break
            except RuntimeError:
                if not rec["dirty"]:
                    raise
                done = True
            stats.event("%s|%s|%d|%s" % (ev["it"], op, len(rec["got"]), done))
            if done:
                del self.iters[ev["it"]]
                if not rec["dirty"]:
                    stats.probe("iterator_judged")
                    got = sorted(r(v) for v in rec["got"])
                    exp = sorted(r(v) for v in self.model.values())
                    stats.checks += 1
                    if got != exp:
                        self.fail("iteration", "iter_drain", got, exp)
        elif op == "iter_cancel":
            rec = self.iters.pop(ev["it"], None)
            if rec is None:
                return
            if ev["how"] == "close" and hasattr(rec["gen"], "close"):
                rec["gen"].close()
            elif ev["how"] == "drop" or not hasattr(rec["gen"], "throw"):
                # (a plain iterator has neither close() nor throw(): dropping it
                # is the only way to abandon it)
                rec["gen"] = None
            else:
                try:
                    rec["gen"].throw(SimCancel())
                except (SimCancel, StopIteration):
                    pass
            stats.fault("iter_cancel")
            stats.probe("iter_cancelled")
            stats.event("%s|iter_cancel|%s|%d" % (ev["it"], ev["how"], len(rec["got"])))
            self.sweep("iter_cancel", force=True)
        else:
            raise HarnessError("unknown event %r" % (ev,))


class StopRun(Exception):
    pass


def execute(case, stats, known):
    run = Run(case["config"], stats, known)
    try:
        for ev in case["events"]:
            run.step(ev)
        run.sweep("end", force=True)
    except StopRun:
        pass


# -----------------------------------------------------------------------------
def shrink_event(config, ev):
    out = []
    if "stems" in ev and len(ev["stems"]) > 1:
        e = dict(ev)
        e["stems"] = ev["stems"][:-1]
        out.append(e)
        for i, s in enumerate(ev["stems"]):
            if s == "p:":
                e = dict(ev)
                e["stems"] = ev["stems"][:i] + ev["stems"][i + 1 :]
                out.append(e)
    lru = ev.get("lru")
    if isinstance(lru, dict) and "url" in lru:
        if lru.get("p_at"):
            e = dict(ev)
            e["lru"] = dict(lru, p_at=lru["p_at"][:-1])
            out.append(e)
        if lru.get("keep") is not None:
            e = dict(ev)
            e["lru"] = {k: v for k, v in lru.items() if k != "keep"}
            out.append(e)
            e = dict(ev)
            e["lru"] = dict(lru, keep=lru["keep"] / 2)
            out.append(e)
    if ev.get("as") == "str":
        e = dict(ev)
        e["as"] = "list"
        out.append(e)
    if ev.get("via") == "setitem":
        e = dict(ev)
        e["via"] = "set"
        out.append(e)
    if "val" in ev and ev["val"] != {"c": 1}:
        e = dict(ev)
        e["val"] = {"c": 1}
        out.append(e)
    if ev.get("op") in ("set", "match") and ev.get("url") in config["universe"]:
        i = config["universe"].index(ev["url"])
        for j in range(min(i, 3)):
            e = dict(ev)
            e["url"] = config["universe"][j]
            out.append(e)
    return out


def shrink_config(case):
    cfg = case["config"]
    out = []
    if cfg.get("sweep") not in (None, {"iter": True, "stride": 1}):
        c = dict(cfg)
        c["sweep"] = {"iter": True, "stride": 1}
        out.append({"config": c, "events": case["events"]})
    used = set(ev.get("url") for ev in case["events"]) | set(ev["lru"].get("url") for ev in case["events"] if isinstance(ev.get("lru"), dict))
    # halve the universe, keeping URLs the events name
    uni = cfg["universe"]
    if len(uni) > 2:
        for part in (uni[: len(uni) // 2], uni[len(uni) // 2 :]):
            keep = [u for u in uni if u in part or u in used]
            if len(keep) < len(uni):
                c = dict(cfg)
                c["universe"] = keep
                out.append({"config": c, "events": case["events"]})
        for u in uni:
            if u not in used:
                c = dict(cfg)
                c["universe"] = [x for x in uni if x != u]
                out.append({"config": c, "events": case["events"]})
    for k in sorted(cfg["kwargs"]):
        c = dict(cfg)
        c["kwargs"] = {a: b for a, b in cfg["kwargs"].items() if a != k}
        out.append({"config": c, "events": case["events"]})
    if cfg["suffix_aware"]:
        c = dict(cfg)
        c["suffix_aware"] = False
        out.append({"config": c, "events": case["events"]})
    return out


MATCHERS = {}

TIERS = {
    "quick": {"runs": 16000, "chunk": 200, "budget_s": 60},
    "thorough": {"runs": 800000, "chunk": 500, "budget_s": 1500},
}
PROBES = [
    "overwrite",
    "parent_after_child",
    "child_after_parent",
    "trailing_or_empty_path_stem_in_set",
    "empty_path_stem_inside",
    "set_lru_str",
    "set_lru_list",
    "pipe_inside_serialised_stem",
    "empty_lru_stored",
    "match_lru_str",
    "match_lru_list",
    "same_string_class_size_ge2_hit",
    "hierarchy_law_checked",
    "cover_law_checked",
    "same_key_law_on_other_instance",
    "suffix_aware",
    "suffix_aware_multilabel_suffix",
    "set_unparseable_raised",
    "failed_call_retried",
    "iterator_judged",
    "iter_cancelled",
    "other_instance_in_process",
    "cls_LRUTrie",
    "cls_CanonicalizedLRUTrie",
    "cls_NormalizedLRUTrie",
    "cls_FingerprintedLRUTrie",
]
RULE = (
    "one case = one seeded history of set / __setitem__ / set_lru(list|serialised str) calls by 1-3 writer clients on one "
    "trie of a seeded class (4 classes x suffix_aware x the variant's options), with readers (match, match_lru, len), live "
    "iterator tasks, other trie instances of other classes/options living in the same process, and faults (set() of a URL "
    "the tokeniser rejects, set_lru with an unhashable stem, each possibly retried at once; cancellation at any step) "
    "interleaved by the schedule PRNG, over a per-run universe of 12-80 URLs (scheme incl. none and '//', auth, host chain "
    "incl. bare suffixes / IDN / trailing dot, port incl. empty, path chain incl. literal pipes, query, fragment, and the "
    "spellings the variant merges). After mutating events the universe URLs are matched and compared with longest-prefix "
    "lookup in a dict model keyed by cleaned stems; all URLs the variant's URL-level function maps to one string must agree "
    "(same-key law); for the plain LRUTrie a URL lying by construction at or under a stored URL must find something "
    "(hierarchy law, independent of the stem functions); len and iteration are compared too. distinct_nontrivial = "
    "distinct non-empty abstract model states (class + key->value map) reached."
)
ASSUMPTIONS = [
    "the model's keys are computed with the repository's module-level stem functions (lru_stems etc.): a stem bug that is consistent between set and match is invisible here (it belongs to C07/C12/C13); the same-key law against the URL-level functions is the independent cross-check",
    "a literal '|' occurs inside path and query stems (single, doubled, and at the end of a stem that is followed by another stem), but never directly before text that looks like a stem marker ('p:' etc.) and never at the end of the last stem (the serialised LRU format cannot represent those); the empty stem list is only passed as a list (its serialisation '|' reads back as one empty stem)",
    "operations are atomic; an iterator overtaken by a mutation is not judged",
    "sampled histories: a clean batch is evidence, not proof",
]
NO_SEAM = (
    "LRU tries have no I/O, clock, thread or network seam; the only faults are a URL the tokeniser rejects inside set() "
    "and iterator cancellation"
)
