import os
import sys

sys.dont_write_bytecode = True
ROOT = os.path.dirname(os.path.abspath(__file__))
sys.path.insert(0, ROOT)

if os.environ.get("PYTHONHASHSEED") is None:
    # decisions never depend on hash order; pin it anyway so that a missed
    # source of nondeterminism shows up in the determinism self-test, not here
    os.environ["PYTHONHASHSEED"] = "0"
    os.execv(sys.executable, [sys.executable, "-B"] + sys.argv)

from sim.cli import main  # noqa

if __name__ == "__main__":
    sys.exit(main())
