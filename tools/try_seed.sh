#!/bin/sh
# tools/try_seed.sh <worktree> <patch.diff> <demo.py> <property> [runs]
# Applies a seeded change to a scratch worktree (never /repo), confirms tests pass and
# the demo fails with it / passes without it, runs the property's quick check against it.
wt=$1; patch=$2; demo=$3; prop=$4; runs=${5:-}
here=$(cd "$(dirname "$0")/.." && pwd)
git -C "$wt" checkout -q -- . || exit 9
export PYTHONPATH=$wt PYTHONDONTWRITEBYTECODE=1
( cd "$wt" && timeout 300 /venv/bin/python -B "$demo" >/dev/null 2>&1 ); echo "demo clean tree: exit $?"
git -C "$wt" apply "$patch" || { echo "PATCH DOES NOT APPLY"; exit 9; }
( cd "$wt" && timeout 600 /venv/bin/python -m pytest -q -p no:cacheprovider 2>&1 | tail -1 )
( cd "$wt" && timeout 300 /venv/bin/python -B "$demo" >/dev/null 2>&1 ); echo "demo with change: exit $?"
unset PYTHONPATH
if [ -n "$runs" ]; then extra="--runs $runs"; else extra=""; fi
VERIF_REPO=$wt "$here/check" "$prop" --tier quick --evidence-dir none --minimise-s 15 $extra 2>&1 | grep -E "^runs=|^violation|^VIOLATION|HARNESS|regression" | head -8
echo "check exit: $?"
git -C "$wt" checkout -q -- .
