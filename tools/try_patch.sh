#!/bin/sh
# tools/try_patch.sh <patch.diff> <property> [runs]
# Applies a patch to a scratch COPY of /repo (ural + test) on /dev/shm, runs the pinned suite and the
# property's quick check against the copy, removes the copy. Never touches /repo or any worktree.
patch=$1; prop=$2; runs=${3:-}
here=$(cd "$(dirname "$0")/.." && pwd)
scratch=$(mktemp -d /dev/shm/ural-try-XXXXXX)
cp -r /repo/ural /repo/test "$scratch"/ && find "$scratch" -name __pycache__ -prune -exec rm -rf {} +
( cd "$scratch" && git apply "$patch" ) || { echo "PATCH DOES NOT APPLY"; rm -rf "$scratch"; exit 9; }
( cd "$scratch" && PYTHONPATH=$scratch PYTHONDONTWRITEBYTECODE=1 timeout 600 /venv/bin/python -m pytest -q -p no:cacheprovider 2>&1 | tail -1 )
if [ -n "$runs" ]; then extra="--runs $runs"; else extra=""; fi
"$here/check" "$prop" --tier quick --repo "$scratch" --evidence-dir none --minimise-s 15 $extra 2>&1 | grep -E "^runs=|^violation|HARNESS|note:|NOTE|WARNING" | head -8
rm -rf "$scratch"
