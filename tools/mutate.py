#!/venv/bin/python
"""Systematic first-order mutation run (a complement to the sub-agents' seeded changes).

    tools/mutate.py [--files a.py,b.py] [--limit N] [--out mutation_report.json]

For every mutation site in the code the claimed properties are anchored in, one
mutant is written to a scratch copy of /repo (never /repo itself); the pinned
suite is run on it (a mutant the suite kills is counted and skipped); otherwise
the checks of the properties anchored in that file are run against the copy with
reduced run counts until one reports a violation.  Survivors are listed for manual
triage (equivalent mutant / outside the property / gap).
"""
import argparse
import ast
import copy
import json
import os
import shutil
import subprocess
import sys
import tempfile
import time

ROOT = os.path.dirname(os.path.dirname(os.path.abspath(__file__)))
REPO = os.environ.get("VERIF_REPO", "/repo")

# file -> (properties to try, in order), optional set of function names to restrict to
TARGETS = [
    ("ural/classes/trie_dict.py", ["C10", "C09", "C11"], None),
    ("ural/classes/hostname_trie_set.py", ["C09"], None),
    ("ural/classes/suffix_trie.py", ["C08"], None),
    ("ural/lru/trie.py", ["C11"], None),
    ("ural/lru/serialization.py", ["C11"], None),
    ("ural/lru/stems.py", ["C11"], None),
    ("ural/tld.py", ["C08"], None),
    ("ural/has_special_host.py", ["C08", "C09"], {"is_special_host"}),
    ("ural/utils.py", ["C09", "C08", "C11"], {"safe_urlsplit", "attempt_to_decode_idna", "decode_punycode_hostname"}),
]
RUNS = {"C08": "2500", "C09": "1500", "C10": "8000", "C11": "6000"}

CMP_SWAP = {ast.Is: ast.IsNot, ast.IsNot: ast.Is, ast.Eq: ast.NotEq, ast.NotEq: ast.Eq, ast.Lt: ast.LtE, ast.LtE: ast.Lt,
            ast.Gt: ast.GtE, ast.GtE: ast.Gt, ast.In: ast.NotIn, ast.NotIn: ast.In}


class Sites(ast.NodeVisitor):
    """Enumerates mutation sites as (description, function applying it to a deep copy)."""

    def __init__(self, only_functions):
        self.sites = []
        self.only = only_functions
        self.stack = []

    def active(self):
        if self.only is None:
            return True
        return any(name in self.only for name in self.stack)

    def visit_FunctionDef(self, node):
        self.stack.append(node.name)
        self.generic_visit(node)
        self.stack.pop()

    def add(self, node, kind, detail):
        if self.active():
            self.sites.append((getattr(node, "lineno", 0), getattr(node, "col_offset", 0), kind, detail, type(node).__name__))

    def visit_Compare(self, node):
        for i, op in enumerate(node.ops):
            if type(op) in CMP_SWAP:
                self.add(node, "cmp", i)
        self.generic_visit(node)

    def visit_BoolOp(self, node):
        self.add(node, "boolop", None)
        self.generic_visit(node)

    def visit_UnaryOp(self, node):
        if isinstance(node.op, ast.Not):
            self.add(node, "not", None)
        self.generic_visit(node)

    def visit_BinOp(self, node):
        if isinstance(node.op, (ast.Add, ast.Sub)):
            self.add(node, "binop", None)
        self.generic_visit(node)

    def visit_Constant(self, node):
        if isinstance(node.value, bool):
            self.add(node, "const_bool", None)
        elif isinstance(node.value, int) and abs(node.value) <= 64:
            self.add(node, "const_inc", None)
            self.add(node, "const_dec", None)

    def visit_If(self, node):
        self.add(node, "negate_if", None)
        self.generic_visit(node)

    def visit_While(self, node):
        self.generic_visit(node)

    def visit_Assign(self, node):
        self.add(node, "delete_stmt", None)
        self.generic_visit(node)

    def visit_AugAssign(self, node):
        self.add(node, "delete_stmt", None)
        self.add(node, "augop", None)
        self.generic_visit(node)

    def visit_Expr(self, node):
        if isinstance(node.value, ast.Call):
            self.add(node, "delete_stmt", None)
        self.generic_visit(node)

    def visit_Return(self, node):
        if node.value is not None and not (isinstance(node.value, ast.Constant) and node.value.value is None):
            self.add(node, "return_none", None)
        self.generic_visit(node)

    def visit_Break(self, node):
        self.add(node, "delete_stmt", None)

    def visit_Continue(self, node):
        self.add(node, "delete_stmt", None)


def apply_site(tree, site):
    lineno, col, kind, detail, tname = site
    done = [False]

    class T(ast.NodeTransformer):
        def generic_visit(self, node):
            node = super().generic_visit(node)
            if done[0] or type(node).__name__ != tname or getattr(node, "lineno", None) != lineno or getattr(node, "col_offset", None) != col:
                return node
            if kind == "cmp":
                node.ops[detail] = CMP_SWAP[type(node.ops[detail])]()
            elif kind == "boolop":
                node.op = ast.Or() if isinstance(node.op, ast.And) else ast.And()
            elif kind == "not":
                done[0] = True
                return node.operand
            elif kind == "binop":
                node.op = ast.Sub() if isinstance(node.op, ast.Add) else ast.Add()
            elif kind == "const_bool":
                node.value = not node.value
            elif kind == "const_inc":
                node.value = node.value + 1
            elif kind == "const_dec":
                node.value = node.value - 1
            elif kind == "negate_if":
                node.test = ast.UnaryOp(op=ast.Not(), operand=node.test)
            elif kind == "delete_stmt":
                done[0] = True
                return ast.copy_location(ast.Pass(), node)
            elif kind == "augop":
                node.op = ast.Sub() if isinstance(node.op, ast.Add) else ast.Add()
            elif kind == "return_none":
                node.value = ast.Constant(value=None)
            done[0] = True
            return node

    new = T().visit(copy.deepcopy(tree))
    ast.fix_missing_locations(new)
    return new if done[0] else None


def run(cmd, cwd=None, env=None, timeout=900):
    try:
        p = subprocess.run(cmd, cwd=cwd, env=env, stdout=subprocess.PIPE, stderr=subprocess.STDOUT, text=True, timeout=timeout)
        return p.returncode, p.stdout
    except subprocess.TimeoutExpired:
        return 124, "timeout"


def main():
    ap = argparse.ArgumentParser()
    ap.add_argument("--files", default=None)
    ap.add_argument("--limit", type=int, default=None)
    ap.add_argument("--out", default=os.path.join(ROOT, "mutation_report.json"))
    args = ap.parse_args()
    wanted = set(args.files.split(",")) if args.files else None
    base = "/dev/shm" if os.path.isdir("/dev/shm") else None
    results = []
    t0 = time.time()
    for path, props, only in TARGETS:
        if wanted and path not in wanted and os.path.basename(path) not in wanted:
            continue
        with open(os.path.join(REPO, path)) as f:
            source = f.read()
        tree = ast.parse(source)
        v = Sites(only)
        v.visit(tree)
        sites = sorted(set(v.sites))
        if args.limit:
            sites = sites[: args.limit]
        print("%s: %d mutation sites" % (path, len(sites)))
        sys.stdout.flush()
        for site in sites:
            mutated = apply_site(tree, site)
            if mutated is None:
                continue
            try:
                text = ast.unparse(mutated)
            except Exception:
                continue
            scratch = tempfile.mkdtemp(prefix="ural-mut-", dir=base)
            try:
                for name in ("ural", "test"):
                    shutil.copytree(os.path.join(REPO, name), os.path.join(scratch, name), ignore=shutil.ignore_patterns("__pycache__", "*.pyc"))
                with open(os.path.join(scratch, path), "w") as f:
                    f.write(text + "\n")
                env = dict(os.environ, PYTHONPATH=scratch, PYTHONDONTWRITEBYTECODE="1")
                rc_t, out_t = run(["/venv/bin/python", "-m", "pytest", "-q", "-x", "-p", "no:cacheprovider", "--timeout=120"], cwd=scratch, env=env, timeout=300)
                entry = {"file": path, "line": site[0], "col": site[1], "kind": site[2], "node": site[4]}
                if rc_t != 0:
                    entry["outcome"] = "killed_by_tests"
                else:
                    entry["outcome"] = "survived"
                    for prop in props:
                        rc, out = run([sys.executable, "-B", os.path.join(ROOT, "run_check.py"), prop, "--repo", scratch, "--evidence-dir", "none",
                                       "--no-minimise", "--runs", RUNS[prop], "--budget", "120"], timeout=900)
                        if rc == 1:
                            first = [l for l in out.splitlines() if l.startswith("violation:")][:1]
                            entry["outcome"] = "caught"
                            entry["by"] = prop
                            entry["violation"] = first[0][:160] if first else ""
                            break
                        if rc not in (0, 1):
                            entry["outcome"] = "exit_%d" % rc
                            entry["by"] = prop
                            entry["tail"] = out[-300:]
                            break
                results.append(entry)
                print(json.dumps(entry, ensure_ascii=False))
                sys.stdout.flush()
            finally:
                shutil.rmtree(scratch, ignore_errors=True)
            with open(args.out, "w") as f:
                json.dump({"repo_head": subprocess.run(["git", "-C", REPO, "rev-parse", "--short", "HEAD"], stdout=subprocess.PIPE, text=True).stdout.strip(),
                           "wall_s": round(time.time() - t0, 1), "results": results}, f, indent=1)
    counts = {}
    for e in results:
        counts[e["outcome"]] = counts.get(e["outcome"], 0) + 1
    print("summary:", json.dumps(counts))


if __name__ == "__main__":
    main()
