#!/usr/bin/env python3
"""tools/keep_seed.py <id> <property> <src_dir> <detected: yes|no|out-of-scope> <needs> <caught_by>"""
import json, os, shutil, sys
sid, prop, src, detected, needs, caught = sys.argv[1:7]
dst = os.path.join(os.path.dirname(os.path.dirname(os.path.abspath(__file__))), "seeded", sid)
os.makedirs(dst, exist_ok=True)
for name in ("patch.diff", "demo.py", "notes.md"):
    if os.path.exists(os.path.join(src, name)):
        shutil.copy(os.path.join(src, name), os.path.join(dst, name))
meta = {
    "id": sid,
    "property": prop,
    "origin": "independent sub-agent given only the property text and a scratch worktree",
    "needs_to_manifest": needs,
    "confirmed": "tools/try_seed.sh: patch applies to a scratch worktree of /repo HEAD; pinned suite 96 passed with the change; demo.py exits 0 on the clean tree and 1 with the change",
    "check_run": "VERIF_REPO=<scratch worktree with patch> ./check %s --tier quick" % prop,
    "detected": detected,
    "caught_by": caught,
}
with open(os.path.join(dst, "meta.json"), "w") as f:
    json.dump(meta, f, indent=1)
    f.write("\n")
print("kept", dst)
