#!/usr/bin/env python3
"""Writes MANIFEST.json (kept as a generator so the N/A reasons live in one place)."""
import json

NA = {
    "C01": "pure str->str function of its input (canonicalize_url): no state, schedule, clock, I/O or fault for a simulator to own",
    "C02": "relation between two calls of a pure function; the second call cannot observe the first, so there is no history or fault dimension",
    "C03": "relation between the results of three pure functions over pairs of inputs; deciding it is input search, not simulation",
    "C04": "metamorphic invariance of a pure function (normalize_url) over inputs x options; no state or fault",
    "C05": "component-wise input/output relation of a pure function over option settings; options are arguments, not run-time state",
    "C06": "pure function; it only reads the process-global suffix trie, whose life cycle is simulated under C08",
    "C07": "differential agreement of two stateless code paths on one input; nothing can be scheduled or faulted between them",
    "C12": "round-trip identities of pure functions (url<->lru, serialize/unserialize); no state, schedule or fault",
    "C13": "ordering law between lru_stems results on pairs of inputs; pure",
    "C14": "contract of pure string functions over all strings; needs exhaustive enumeration over a token alphabet, which is not this technique",
    "C15": "termination/fixed point of a pure recursive function; the step count depends on the input string only, never on a schedule or fault",
    "C16": "monotonicity across option settings and post-conditions of a pure generator whose state is local to one call",
    "C17": "post-conditions of pure generators; already_seen is per-call local state unreachable from any other caller",
    "C18": "non-interference of pure predicates over URLs; the import-time HostnameTrieSets they read are replayed as histories under C09",
    "C19": "totality and round trip of pure parsers over a path grammar; bounded enumeration of inputs, not simulation",
    "C20": "algebraic laws of pure string builders; URLFormatter is immutable after construction and no property quantifies over call sequences",
}

CHECKS = {
    "C08": {
        "text": "Seeded deterministic simulation of (a) rule-add histories on bare SuffixTrie objects (<= 4 rules quick / <= 6 thorough over a 3-label alphabet; normal, wildcard, exception rules, duplicates; the same multiset under 1-3 seeded schedules) with every hostname of depth <= 4 queried after every add in rotating spellings (bare, URL, schemeless, upper case, trailing dot, SplitResult, auth), and (b) life-cycle histories of the process-global state of ural.tld — two simulated origin servers publishing list versions, an operator running upgrade(transient=True) / upgrade() / restart — with injected network faults (refused, reset while reading, incomplete read, truncated, undecodable, stale; served bodies vary CRLF / blanks / markers / punycode comment lines), disk faults (open error, ENOSPC at the k-th write) and crashes (at the k-th write with a torn or partially lost durable image; before the file is opened), starting from a synthetic data file or the real bundled one. Oracle: an independent set-based implementation of the publicsuffix.org algorithm over the rule list in effect (served list after a successful upgrade; old or served list, never a mixture or a third list, after a failed one; the old list when success is reported although the origin never delivered; the loaded file after a restart, which must import unless a disk fault or crash was injected); TLD membership is absolute in a fresh process and relational otherwise. A deterministic preflight sweeps the whole derived host set of the bundled list (~30k hosts + seeded random label sequences). Sampled evidence with minimised exactly-replayable counterexamples.",
        "note": "Trusted: the set-based PSL reference and the reference list-file parser (sim/psl.py, ~80 lines), the fakes (sim/fakes.py), CPython's importlib.reload as the model of a process restart. A host matched by no rule has no valid suffix (the property's wording). Hosts matched by two nested exception rules are not judged (the algorithm is silent). A torn data file that fails to import is 'node down', not a violation.",
        "design": "DESIGN.md §4 C08",
        "technique": "deterministic simulation with fault injection: seeded rule-add schedules + upgrade/restart life cycle on fake network and fake disk with crash points, set-based PSL reference model, ddmin-minimised replay",
    },
    "C11": {
        "text": "Seeded deterministic simulation of set / __setitem__ / set_lru histories on one trie of a seeded class (LRUTrie, Canonicalized-, Normalized-, FingerprintedLRUTrie) x suffix_aware x the variant's options, by 1-3 writer clients with readers, live iterator tasks and faults (set() of a URL the tokeniser rejects, iterator cancellation) interleaved by a seeded scheduler. After every mutating event every URL of a per-run universe (12-80 URLs: scheme x auth x host chain x port x path chain x query x fragment and the spellings the variant merges) is matched and compared with longest-prefix lookup in a dict model keyed by cleaned stems; list and serialised LRUs must be interchangeable; len and iteration are compared; independently of the stem functions, all URLs the variant's URL-level function maps to one string must give the same answer and hit right after one of them is stored (same-key law, also on a sibling instance with the same option names and flipped values), a URL at or under a stored URL by construction must hit (hierarchy law, plain trie) and a hit needs a stored URL whose host is the query's or a label-wise suffix of it (cover law). The universe includes special hosts, facebook / youtube shapes for platform_aware, and redirect-carrying URLs. Sampled evidence with minimised exactly-replayable counterexamples.",
        "note": "Trusted: the prefix-map model (20 lines), CPython, and — shared between model and system — the repository's module-level stem functions (a stem bug consistent between set and match is C07/C12/C13's subject); the same-key law against canonicalize_url/normalize_url/fingerprint_url is the independent cross-check.",
        "design": "DESIGN.md §4 C11",
        "technique": "deterministic simulation with fault injection: seeded set/set_lru schedules over 4 trie classes x options, prefix-map reference model + same-key law, ddmin-minimised replay",
    },
    "C09": {
        "text": "Seeded deterministic simulation of HostnameTrieSet add histories: random small-scope histories by 1-4 writer clients, one add multiset replayed under 2-4 seeded schedules (order independence), and the repository's own import-time histories (1,361 + 158 + 2 domains) in list order, shuffled and as the live module-level tries; readers, live iterator tasks and faults (iterator cancellation, add() of a non-string) are interleaved by the scheduler. After every add every hostname of depth <= depth+1 over the alphabet is matched in rotating URL forms and label spellings (case, punycode, IDN), and len / iteration are compared with the minimal covering set of a set-of-label-tuples model. Sampled evidence, minimised exactly-replayable counterexamples.",
        "note": "Trusted: the set model (20 lines), Python's idna codec for IDN labels, CPython. Hosts that are IP literals or 'localhost' are excluded by construction (documented as undefined).",
        "design": "DESIGN.md §4 C09",
        "technique": "deterministic simulation with fault injection: seeded add schedules (incl. same multiset under several schedules and the bundled import-time histories), set reference model, iterator-cancellation faults, ddmin-minimised replay",
    },
    "C10": {
        "text": "Seeded deterministic simulation of TrieDict histories (1-4 writer clients, readers, live iterator tasks interleaved by a seeded scheduler; faults: key iterable failing after k tokens, unhashable token at position k, iterator cancellation) compared operation by operation and by a full key-universe sweep after every mutating event against a dict reference model. Sampled evidence over millions of short histories on tiny alphabets, not proof; failures are minimised (ddmin over the explicit event list) and replay exactly.",
        "note": "Trusted: the dict reference model (30 lines), CPython. Operations are atomic (no thread safety is documented). Only __setitem__ mutates in C10 histories.",
        "design": "DESIGN.md §4 C10",
        "technique": "deterministic simulation with fault injection: seeded schedules of client/iterator tasks on 1-2 instances + caller-side faults with retries, dict reference model, fresh-process reproduced and ddmin-minimised replay",
    },
}


def main():
    checks = []
    for pid in sorted(CHECKS):
        c = CHECKS[pid]
        checks.append(
            {
                "property_id": pid,
                "quick_cmd": "./check %s --tier quick" % pid,
                "thorough_cmd": "./check %s --tier thorough" % pid,
                "evidence_file": "/verif/evidence/%s.json" % pid,
                "replay_cmd_template": "./check %s --replay {path}" % pid,
                "engine": "sim",
                "level_claimed": {"category": "exploration", "text": c["text"], "design_ref": c["design"]},
                "level_note": c["note"],
                "technique": c["technique"],
            }
        )
    manifest = {
        "version": 1,
        "setup_cmd": "./check setup",
        "hooks": {
            "guard": "URAL_VERIF_SIM",
            "enable": "no hook exists in /repo: every seam the simulator needs is a module attribute (ural.tld.urlopen, ural.tld.codecs, ural.tld.refresh); the guard name is reserved and unused",
            "baseline_off_cmd": "cd /repo && /venv/bin/python -m pytest -ra -q -p no:cacheprovider --timeout=900 --continue-on-collection-errors",
            "source_commits": [],
            "add_only": True,
        },
        "engines": [
            {
                "name": "sim",
                "path": "/verif/sim",
                "serves_properties": sorted(CHECKS),
                "kind_free_text": "hand-written deterministic simulator: sha256-derived PRNG streams per (property, seed, run), seeded task scheduler, explicit event lists as replay files, reference models, ddmin minimiser, fake network/disk/restart for ural.tld",
            }
        ],
        "checks": checks,
        "not_applicable": [{"property_id": k, "reason": NA[k]} for k in sorted(NA)],
        "notes": "Exit codes: 0 held (KNOWN-FINDING lines allowed), 1 with VIOLATION line(s), 2 harness error (never a VIOLATION). VERIF_SEED, VERIF_TIER, VERIF_BUDGET_S, VERIF_WORKERS and VERIF_REPO are honoured.",
    }
    with open("MANIFEST.json", "w") as f:
        json.dump(manifest, f, indent=1)
        f.write("\n")


if __name__ == "__main__":
    main()
